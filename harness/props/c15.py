"""C15 — repeated assignments: last wins, lists accumulate, empty assignment resets"""
import gen_units as G
import core, gen
from core import hx, unhx

LEAN_MODULE = 'QM.Props.C15Cmd'
THEOREMS = ['Cv.C15_history_merge', 'Cv.C15_history', 'Cv.C15_list', 'Cv.C15_list_total', 'Cv.C15_last', 'Cv.C15_bool_reset',
            'Cv.C15_keyval_fold', 'Cv.C15_keyval', 'Cv.C15_network_command_last', 'Cv.C15_network_command_last_dropins',
            'Conform.parse_bool_true', 'Conform.parse_bool_false', 'Conform.parse_bool_other', 'Cv.string_key_last_in_block', 'Cv.C15_image_command_last', 'Cv.C15_pod_command_last', 'Cv.C15_build_command_last', 'Cv.C15_container_command_last']
ASSUMPTIONS = [
    'MM.SUnit (insertion-ordered association lists) models the ordered-multimap crate as SystemdUnit uses it; tied to the code by unit-script correspondence (load/merge/add/set/prepend/rename then all lookups)',
    'the command-level part ("the generated command reflects exactly that effective value") is a theorem over the converter models for the single-valued table keys of the .network, .image, .pod, .build and .container converters (C15_<type>_command_last: the last assignment, wherever made, is the option\'s value in the generated command); for the other key kinds it is checked on real conversions of generated histories (oracle), per key kind',
]
LEVEL_TEXT = ('Proof + oracle: Lean theorems over the multimap model — the assignment history of any number of merged files is the concatenation of '
              'their histories (C15_history, induction over files and entries), list lookups return exactly what was assigned after the last empty '
              'assignment (C15_list, applicable to every history by C15_list_total), single-valued lookups return the last assignment, name=value '
              'lookups carry the last value per name (C15_keyval), an empty last boolean assignment is "unset". At the command level '
              '(QM/Props/C15Cmd.lean), for the .network, .image, .pod, .build and .container converter models: the last assignment of a single-valued table key — in the main file or in any '
              'drop-in, in merge order — is the value of its option on the generated command line (C15_<type>_command_last, C15_network_command_last_dropins, from '
              'C15_last, C15_history and the command shapes of C02); for list and name=value keys the command level is decided by the oracle. The model is tied to unit.rs by '
              'correspondence on random histories split over main file, repeated sections and drop-ins; the resulting podman command is checked '
              'against an independent fold on real conversions.')
LEVEL_NOTE = 'Trusted: Lean kernel; correspondence on generated histories; the Python reference fold used as the statement of the rule for the command-level oracle.'
TECHNIQUE = 'Lean 4 proofs about the lookup folds over an ordered-multimap model + correspondence + command-level oracle'

VALS = ['a', 'b', 'x=1', 'x=2', 'y=3 z=4', 'a b', '"q r"', 'y=', '=v', 'n=a=b', 'true', 'no', 'é', '%h', '',
        # assignments that *look* empty but are not an empty assignment (no reset): a quoted empty word, a quoted blank
        '""', "''", '" "',
        # one assignment that names the same thing more than once
        'x=1 x=2', 'z=9 y=3 z=4 y=5', 'x= x=7 x=']


def gen_history(rnd):
    n = rnd.randint(0, 7)
    h = []
    for _ in range(n):
        h.append('' if rnd.random() < 0.25 else rnd.choice(VALS))
    return h


def script_for(rnd, hist):
    """distribute a history over main file, repeated sections and drop-ins; other keys interleaved"""
    files = [[]]
    for v in hist:
        if rnd.random() < 0.25:
            files.append([])
        files[-1].append(v)
    parts = []
    for i, f in enumerate(files):
        text = ''
        cur_open = False
        for v in f:
            if not cur_open or rnd.random() < 0.2:
                if rnd.random() < 0.3:
                    text += '[Other]\nK=zzz\n'
                text += '[S]\n'
                cur_open = True
            if rnd.random() < 0.3:
                text += 'Other=1\n'
            text += f'K={v}\n'
        parts.append(text)
    sc = ['load', hx(parts[0])]
    for t in parts[1:]:
        sc += ['merge', hx(t)]
    S, K = hx('S'), hx('K')
    for q in ['history', 'lookup_all_raw', 'lookup_last_raw', 'lookup', 'lookup_all', 'lookup_all_args', 'lookup_all_strv',
              'lookup_all_key_val', 'lookup_bool', 'has_key']:
        sc += [q, S, K]
    sc += ['has_section', S, 'len', 'dump']
    return 'unit\t' + '\t'.join(sc)


def mutation_script(rnd):
    """add/set/prepend/rename sequences (the operations the converters apply to the service unit)"""
    secs, keys = ['A', 'B', 'X-A'], ['K', 'L']
    vals = ['v', 'w x', '', 'q"r', 'é']
    sc = ['load', hx(rnd.choice(['', '[A]\nK=1\nL=2\nK=3\n', '[A]\nK=1\n[B]\nL=2\n[A]\nK=3\n', '[B]\n[A]\nK=\n']))]
    for _ in range(rnd.randint(1, 6)):
        op = rnd.choice(['add', 'set', 'prepend', 'rename', 'addraw', 'setraw', 'merge'])
        if op == 'rename':
            sc += [op, hx(rnd.choice(secs)), hx(rnd.choice(secs))]
        elif op == 'merge':
            sc += [op, hx(rnd.choice(['[A]\nK=m\n', '[C]\nZ=1\n[A]\nL=\n', '']))]
        else:
            sc += [op, hx(rnd.choice(secs)), hx(rnd.choice(keys)), hx(rnd.choice(vals + (['"unterminated \\'] if 'raw' in op else [])))]
    sc += ['dump', 'to_string', 'write_to', 'len']
    for s_ in secs:
        for k in keys:
            sc += ['history', hx(s_), hx(k)]
    return 'unit\t' + '\t'.join(sc)


def corr_ops(ctx):
    rnd = ctx.rnd
    n = 12000 if ctx.thorough else 2500
    ctx._c15 = [gen_history(rnd) for _ in range(n)]
    ops = [script_for(rnd, h) for h in ctx._c15]
    ops += [mutation_script(rnd) for _ in range(n)]
    return ops


def project(op, out):
    # rename onto the same section name is never done by the converters and the crate's behaviour there is an artefact
    return out


def nontrivial(op, out):
    return out.startswith('ok') and out.count('x') > 8


def ref_list(hist):
    res = []
    for v in hist:
        if v == '':
            res = []
        else:
            res.append(v)
    return res


def simple_words(v):
    if v in ('""', "''"):
        return ['']
    if v == '" "':
        return [' ']
    return v.replace('"', '').split(' ') if v != '"q r"' else ['q r']


def oracle(ctx):
    res = ctx.res
    rnd = ctx.rnd
    hists = getattr(ctx, '_c15', None) or [gen_history(rnd) for _ in range(2500)]
    ops = [script_for(rnd, h) for h in hists]
    io = ctx.impl(ops)
    for h, op, a in zip(hists, ops, io):
        res.oracle_evals += 1
        if not a.startswith('ok '):
            res.oracle_failures.append(dict(op=op, input=h, impl_output=core.dec_line(a), oracle_expectation='script runs'))
            continue
        f = a[3:].split(' | ')
        eff = ref_list(h)
        want_hist = '[' + ' '.join(hx(v) for v in h) + ']'
        want_all = '[' + ' '.join(hx(v) for v in eff) + ']'
        want_last = 'some ' + hx(h[-1]) if h else 'none'
        kv = {}
        for v in eff:
            for w in simple_words(v):
                if '=' in w:
                    k, val = w.split('=', 1)
                    kv[k] = val
        want_kv = '[' + ' '.join(hx(k) + ' ' + hx(kv[k]) for k in sorted(kv)) + ']'
        fails = []
        if f[0] != want_hist:
            fails.append(('history', f[0], want_hist))
        if f[1] != want_all:
            fails.append(('lookup_all_values', f[1], want_all))
        if f[2] != want_last:
            fails.append(('lookup_last_value', f[2], want_last))
        if f[7] != want_kv:
            fails.append(('lookup_all_key_val', f[7], want_kv))
        want_bool = 'none'
        if h and h[-1].strip() != '':
            want_bool = 'some true' if h[-1] in ('1', 'yes', 'true', 'on') else 'some false'
        if f[8] != want_bool:
            fails.append(('lookup_bool', f[8], want_bool))
        for name, got, want in fails:
            res.oracle_failures.append(dict(op=op, input=h, impl_output=f'{name}: {core.dec_line(got)}',
                                            oracle_expectation=f'{name}: {core.dec_line(want)} (fold: last wins / accumulate / reset on empty)'))
    # decisions are made on the effective value too: a key that was assigned and then reset is *unset* — also for the checks that two
    # keys exclude each other or that one of them is required (Image= / Rootfs= of a container; the reset in the same section, a
    # repeated one, or — through the file-level spellings below — a drop-in)
    excl = []
    for hist, want in ((['Image=img', 'Rootfs=/r', 'Image='], ['--rootfs', '/r']), (['Rootfs=/r', 'Image=img', 'Rootfs='], ['img']),
                       (['Image=img', 'Image=', 'Rootfs=/r'], ['--rootfs', '/r']), (['Rootfs=/r', 'Rootfs=', 'Image=img'], ['img']),
                       (['Image=a', 'Rootfs=/r', 'Image=', 'Rootfs=', 'Image=b'], ['b']), (['Image=img', 'Rootfs=/r'], None), (['Image=img', 'Image='], None)):
        for sep in ('', '[Unit]\nDescription=x\n[Container]\n'):
            excl.append((hist, want, '[Container]\n' + sep.join(h + '\n' for h in hist)))
    eo = ctx.impl([f'convert\t0\t0\t{hx("/q/x.container")}\t{hx(t)}' for _, _, t in excl])
    from props import c02 as _c02
    for (hist, want, text), a, av in zip(excl, eo, _c02.argv(ctx, eo)):
        res.oracle_evals += 1
        if want is None:
            if av is not None:
                res.oracle_failures.append(dict(op='convert', input=text, impl_output=str(av)[:300], oracle_expectation='both keys effectively set (or none): the unit is rejected'))
        elif av is None or av[-len(want):] != want:
            res.oracle_failures.append(dict(op='convert', input=text, impl_output=core.dec_line(a)[:400] if av is None else str(av),
                                            oracle_expectation=f'the effective values are what counts: the command ends with {want}'))
    # command level: the effective value is what the podman command carries
    cases = []
    for _ in range(1200 if ctx.thorough else 300):
        kind = rnd.choice(['str', 'all', 'strv', 'args', 'keyval', 'bool', 'strempty'])
        pool = {'str': ['UTC', 'Europe/Rome', 'a b', ''], 'all': ['8.8.8.8', '1.1.1.1', ''], 'strv': ['CAP_A CAP_B', 'CAP_C', ''],
                'args': ['--x "a b"', '-v', ''], 'keyval': ['A=1 B=2', 'A=3', 'C=', '', 'A=1 A=2', 'B=x A=9 B=y', 'C=1 C= C=3', 'A=q1 A=q2 A=q1'], 'bool': ['true', 'false', 'yes', ''],
                'strempty': ['journald', 'json-file', '']}[kind]
        hist = [rnd.choice(pool) for _ in range(rnd.randint(1, 5))]
        key = {'str': 'Timezone', 'all': 'DNS', 'strv': 'AddCapability', 'args': 'PodmanArgs', 'keyval': 'Environment', 'bool': 'ReadOnly',
               'strempty': 'LogDriver'}[kind]
        # spread over repeated sections
        text = '[Container]\nImage=img\n'
        for v in hist:
            if rnd.random() < 0.3:
                text += '[Unit]\nDescription=x\n[Container]\n'
            text += f'{key}={v}\n'
            r = rnd.random()
            if r < 0.15:
                # a repeated header of the same section with no assignment at all: not a reset
                text += rnd.choice(['[Container]\n', '[Container]\n# only a comment\n\n', '[Unit]\n[Container]\n;c\n'])
        cases.append((kind, key, hist, text))
    ops = [f'convert\t0\t0\t{hx("/q/c.container")}\t{hx(t)}' for _, _, _, t in cases]
    io = ctx.impl(ops)
    for (kind, key, hist, text), op, a in zip(cases, ops, io):
        res.oracle_evals += 1
        if not a.startswith('ok svc '):
            res.oracle_failures.append(dict(op=op, input=text, impl_output=core.dec_line(a), oracle_expectation='a service'))
            continue
        toks = a.split(' ')
        raw = [unhx(toks[i + 1][1:]) for i in range(len(toks) - 1) if toks[i] == 'K' + hx('ExecStart')][-1]
        words = [unhx(t) for t in ctx.model(['spec_split_exec\t' + hx(raw)])[0][4:-1].split(' ') if t]
        eff = ref_list(hist)
        last = hist[-1]
        fail = None

        def after(flag):
            return [words[i + 1] for i in range(len(words) - 1) if words[i] == flag]
        if kind == 'str':
            want = [last] if last != '' else []
            if after('--tz') != want:
                fail = f'--tz {after("--tz")} != {want}'
        elif kind == 'strempty':
            want = [last] if last != '' else []
            if after('--log-driver') != want:
                fail = f'--log-driver {after("--log-driver")} != {want}'
        elif kind == 'all':
            if after('--dns') != eff:
                fail = f'--dns {after("--dns")} != {eff}'
        elif kind == 'strv':
            want = [w.lower() for v in eff for w in v.split(' ')]
            if after('--cap-add') != want:
                fail = f'--cap-add {after("--cap-add")} != {want}'
        elif kind == 'args':
            want = [w for v in eff for w in (['--x', 'a b'] if v.startswith('--x') else [v])]
            i = words.index('img')
            j = len(words) - 1 - words[::-1].index('img')
            got = [w for w in words if w in ('--x', 'a b', '-v')]
            if got != want:
                fail = f'PodmanArgs {got} != {want}'
        elif kind == 'keyval':
            kv = {}
            for v in eff:
                for w in v.split(' '):
                    if '=' in w:
                        k, val = w.split('=', 1)
                        kv[k] = val
            got = sorted(after('--env'))
            want = sorted(f'{k}={v}' for k, v in kv.items())
            if got != want:
                fail = f'--env {got} != {want}'
        elif kind == 'bool':
            got = [w for w in words if w.startswith('--read-only')]
            want = [] if last.strip() == '' else (['--read-only'] if last in ('true', 'yes') else ['--read-only=false'])
            if got != want:
                fail = f'{got} != {want}'
        if fail:
            res.oracle_failures.append(dict(op=op, input=dict(key=key, history=hist), impl_output=raw, oracle_expectation=fail))
    res.samples.append(dict(kind='oracle-case', history=hists[3], script=core.dec_line(ops[3])[:200]))
    # every table-driven key of every unit type, by the kind the frozen specification gives it: single-valued keys take the
    # last assignment, all-values keys accumulate, booleans take the last; with a reset in between
    import props.c02 as c02
    tcases = []
    for ty in G.TYPES:
        for key, kind, flag in c02.key_specs(ty):
            if kind not in ('str', 'all', 'allg', 'bool'):
                continue
            vals = ['true', 'false'] if kind == 'bool' else ['v-one', 'v-two', 'v-three']
            for hist in ([vals[0], vals[1]], [vals[1], '', vals[0]], [vals[0], vals[1], vals[-1]] if kind != 'bool' else [vals[0], '', vals[1]]):
                text = '[' + G.SEC[ty] + ']\n' + ''.join(b + '\n' for b in G.BASE[ty] if not b.startswith(key + '=')) + ''.join(f'{key}={v}\n' for v in hist)
                tcases.append((ty, key, kind, flag, hist, text))
    # … and the history of one key is its own: with a key K reset (value, empty), every *other* table key of the unit that is set
    # keeps its option
    besides, bops = [], []
    for ty in G.TYPES:
        specs = [(k, kd, f) for k, kd, f in c02.key_specs(ty) if kd in ('str', 'all')]
        for i, (key, kind, flag) in enumerate(specs):
            others = [specs[j] for j in range(len(specs)) if j != i]
            if not others:
                continue
            pick = rnd.sample(others, min(len(others), 3))
            text = ('[' + G.SEC[ty] + ']\n' + ''.join(b + '\n' for b in G.BASE[ty] if b.split('=')[0] not in [key] + [p[0] for p in pick])
                    + ''.join(f'{k2}=beside-{n}\n' for n, (k2, _, _) in enumerate(pick)) + f'{key}=gone\n{key}=\n')
            besides.append((ty, key, pick, text))
            bops.append(f'convert\t0\t0\t{hx("/q/b." + ty)}\t{hx(text)}')
    bav = c02.argv(ctx, ctx.impl(bops))
    for (ty, key, pick, text), op, av in zip(besides, bops, bav):
        if av is None:
            continue
        res.oracle_evals += 1
        missing = [(k2, f2) for n, (k2, _, f2) in enumerate(pick) if not any(av[i] == f2 and av[i + 1] == f'beside-{n}' for i in range(len(av) - 1))]
        if missing or 'gone' in av:
            res.oracle_failures.append(dict(op=op, input=text, impl_output=str(av)[:500],
                                            oracle_expectation=f'{key} was reset; the keys beside it keep their options {[(k2, f2) for k2, _, f2 in pick]} (missing: {missing})'))
    tops = [f'convert\t0\t0\t{hx("/q/t." + ty)}\t{hx(text)}' for ty, key, kind, flag, hist, text in tcases]
    targv = c02.argv(ctx, ctx.impl(tops))
    for (ty, key, kind, flag, hist, text), op, av in zip(tcases, tops, targv):
        if av is None:
            continue   # the value is not acceptable for this key (enumerated keys): not this property
        res.oracle_evals += 1
        eff = ref_list(hist)
        got = [av[i + 1] for i in range(len(av) - 1) if av[i] == flag]
        if kind == 'str':
            want = [hist[-1]] if hist[-1] != '' else []
        elif kind in ('all', 'allg'):
            want = eff
        else:
            got = [x for x in av if x == flag or x.startswith(flag + '=')]
            want = [] if hist[-1] == '' else ([flag] if hist[-1] == 'true' else [flag + '=false'])
        if got != want:
            res.oracle_failures.append(dict(op=op, input=text, impl_output=str(av)[:500],
                                            oracle_expectation=f'{key} ({"single-valued" if kind == "str" else "boolean" if kind == "bool" else "all values"}) after {hist}: {flag} {want}, got {got}'))
    # a list key whose items are rendered one by one into name=value annotations (.kube AutoUpdate=[container/]policy): each item on its
    # own, whatever came before it
    aops, ameta = [], []
    for _ in range(120 if ctx.thorough else 30):
        items = [rnd.choice(['registry', 'local', 'app/registry', 'db/local', 'web/registry']) for _ in range(rnd.randint(1, 4))]
        if rnd.random() < 0.3:
            items.insert(rnd.randrange(len(items) + 1), '')
        text = '[Kube]\nYaml=/k.yaml\n' + ''.join(rnd.choice([f'AutoUpdate={it}\n', f'[Kube]\nAutoUpdate={it}\n']) for it in items)
        aops.append(f'convert\t0\t0\t{hx("/q/au.kube")}\t{hx(text)}')
        ameta.append((items, text))
    for (items, text), op, av in zip(ameta, aops, c02.argv(ctx, ctx.impl(aops))):
        if av is None:
            continue
        res.oracle_evals += 1
        eff = ref_list(items)
        want = sorted(('io.containers.autoupdate/' + it.split('/')[0] + '=' + it.split('/')[1]) if '/' in it else 'io.containers.autoupdate=' + it for it in eff)
        got = sorted(av[i + 1] for i in range(len(av) - 1) if av[i] == '--annotation' and av[i + 1].startswith('io.containers.autoupdate'))
        if got != want:
            res.oracle_failures.append(dict(op=op, input=text, impl_output=str(got), oracle_expectation=f'AutoUpdate items {eff} → annotations {want}'))
    # the effective value is also what *other* units see: naming keys with a history (two values; value, reset, value), and a
    # unit that refers to the one that has the key — its command carries the effective name, never a discarded one
    import props.c04 as c04
    hops, hmeta = [], []
    for ty, lines, referrer, ok, what in c04.HANDED_ON:
        key = lines.split('=')[-2].split('\n')[-1]
        hists = [['old-name', '', 'new-name'], ['', 'old-name', '', 'new-name']]
        if not (ty == 'build'):
            hists.append(['old-name', 'new-name'])   # (a .build's ImageTag is a list: without a reset the first tag names the image)
        for hist in hists:
            body = lines.replace(key + '={}', '\n'.join(f'{key}={v}' for v in hist))
            t0 = '[' + G.SEC[ty] + ']\n' + body + '\n'
            t1 = '[Container]\n' + referrer + '\n'
            hops.append(f'convert\t0\t0,1\t{hx("/q/n." + ty)}\t{hx(t0)}\t{hx("/q/r.container")}\t{hx(t1)}')
            hmeta.append((ty, key, hist, t0 + '--- r.container\n' + t1, ok, what))
    houts = ctx.impl(hops)
    havs = c02.argv(ctx, [('ok ' + a[3:].split(' | ')[-1]) if a.startswith('ok ') else a for a in houts])
    for (ty, key, hist, text, ok, what), op, a, av in zip(hmeta, hops, houts, havs):
        res.oracle_evals += 1
        if av is None or not ok('new-name', av) or any('old-name' in x for x in av):
            res.oracle_failures.append(dict(op=op, input=text, impl_output=str(av)[:500] if av else core.dec_line(a)[:500],
                                            oracle_expectation=f'{key} of the .{ty} after {hist} is new-name: the referring container has {what} with that name and no trace of the discarded one'))
    # the same histories distributed over the main file and drop-ins (one, two, in the unit's or the template's drop-in directory,
    # in one or two search directories — name order decides, not directory order), through the real loader
    import filespell
    sets = [{'c.container': t} for _, _, _, t in cases[:(300 if ctx.thorough else 60)]]
    pick = tcases if ctx.thorough else rnd.sample(tcases, min(len(tcases), 60))
    sets += [{rnd.choice(['t.', 'tpl@i.']) + ty: text} for ty, key, kind, flag, hist, text in pick]
    # … and the naming keys beside a unit that refers to the named one: the name a referrer sees is the effective one, wherever the last
    # assignment was made (each pair twice: the cut between main file and drop-in falls at a random place)
    for ty, key, hist, text, ok, what in hmeta:
        t0, t1 = text.split('--- r.container\n')
        sets += [{'n.' + ty: t0, 'r.container': t1}] * 2
    filespell.compare(ctx, sets, ['dropin', 'two', 'two-dirs', 'two-dirs-rev', 'two-dirs', 'template-dir'], 'C15 histories over drop-ins')
    ctx.log(f'oracle: {res.oracle_evals} evaluations, {len(res.oracle_failures)} failures')
