"""C11 — the generator never panics, aborts or hangs, whatever the input files contain"""
import json, os, shutil, subprocess, sys
import core, gen, gen_units as G, canon, e2e
from core import hx, unhx

LEAN_MODULE = 'QM.Props.C11'
THEOREMS = ['Cv.C11_loaded_values_unquotable', 'Cv.C11_added_values_readable', 'Cv.C11_exec_lines_storable', 'Cv.C11_load_error_is_per_file',
            'Parse.parse_valid', 'P.unquote_quoteValue', 'P.unquote_quoteWords']
ASSUMPTIONS = [
    'a theorem cannot observe a Rust panic: the claim is partial by construction. Proved: the conditions under which the expect()s of EntryValue::unquote and add_raw would fire are impossible in the model; all model functions are total (accepted by Lean\'s termination checker, or fuel bounded by the input length)',
    'tie: (T1) the inventory of every unwrap/expect/panic!/assert!/index expression of non-test code, regenerated from the source on every run and compared with the committed classification spec/panic_sites.json (a new or changed site is an unclassified obligation); (T2) every hook-driver call runs under catch_unwind and the binary is run on adversarial trees with a watchdog: exit status must be 0 or 1, never 101, a signal or a timeout',
    'not modelled: allocation failure, stack exhaustion, the expect()s on writes to stdout/stderr, write errors of /dev/kmsg, a deleted working directory, signals (the logger itself runs for real: the adversarial and long-message trees are also run with logging to /dev/kmsg and with -v)',
]
LEVEL_TEXT = ('Proof (reachability conditions of the expect sites, totality) + site inventory + panic observation: Lean theorems show that every raw value '
              'of a loaded unit is accepted by the unquoter (parse_valid: invariant over the parser), that every string the generator stores through '
              'add/set is read back without error for every NUL-free string (unquote_quoteValue: induction over the string in any quote state), and that '
              'every rendered command line is storable — so the expect()s in value.rs cannot fire; a file that fails to load is an error for that file '
              'only. Every other panicking construct of non-test code is listed by an inventory regenerated from the source and must match a reviewed '
              'classification; the real code is run under catch_unwind / exit-status observation on structured random units of all types and keys with '
              'adversarial values, byte-level mutations of the repository\'s 254 example files, adversarial file names incl. non-UTF-8, and [Install] junk.')
LEVEL_NOTE = 'Partial with respect to the runtime (see assumptions). Trusted: Lean kernel; the inventory script; the reviewed classification of the sites that are neither proved nor runtime; the fuzz streams.'
TECHNIQUE = 'Lean 4 proofs that the expect() preconditions always hold + regenerated panic-site inventory vs reviewed classification + catch_unwind / exit-status fuzzing'

ADV = ['\\ud800', '\\udfff x', 'mood=\\ud83d\\ude00', '\\U0000d800', '\\U00110000', '\\Uffffffff', '\\u0000', '\\x00', '\\0', '\\777', '\\400', '"\\ud800"',
       '', ' ', '"', "'", '\\', '\\x00', '\\x', '\\u12', '%', '%%', '/', '//', '..', '../..', '-', '--', ':', '::', 'a:b:c:d:e', ',', ',,', 'type=', 'type=bind', 'type=bind,', 'type==',
       'source=', '=', '==', 'a=', '=b', '@', '@@', '.', 'x.volume', '.volume', 'x.network:', ':x', '\x7f', 'é', ' ', '𝄞', 'a' * 300, '0', '-1', '99999999999999999999', 'keep-id',
       'keep-id:uid=', 'auto', 'manual', 'true', 'yes', 'image', 'notify', 'oneshot', 'healthy', 'yaml', 'unit', 'file', '-/dev/null', '-', '"unterminated', "'unterminated", 'a\\', '1-2/tcp',
       'type', 'type,destination=/x', 'destination=/x,type', 'type bind,source=/a', 'type,type=bind', 'source', 'src,dst', 'ip', 'uid', 'keep-id:', 'keep-id:uid', ':ro', 'a::',
       'a\x00b', '\x00', 'k=v\x00', 'x\x01y', '\x1b[0m', '\ufeffbom', '\ufffe',   # literal control bytes (no backslash in the value)
       'host', 'none', 'x.container', 'x.pod', 'x.image', 'x.build', '.pod', 'type=image,src=x.image', 'type=volume,source=,dst=/x', 'type=bind,"a,b"', 'type=glob,src=/a*', 'a b', '\t']


def adv_unit(rnd, tables, ty):
    keys = tables['supported'][G.SUP[ty]]
    lines = ['[' + G.SEC[ty] + ']']
    if rnd.random() < 0.8:
        lines += G.BASE[ty]
    for _ in range(rnd.randint(0, 12)):
        lines.append(rnd.choice(keys) + '=' + rnd.choice(ADV + G.VALS))
    if rnd.random() < 0.5:
        lines += ['[Service]'] + [rnd.choice(['KillMode', 'Type', 'WorkingDirectory', 'SyslogIdentifier', 'RemainAfterExit', 'NotifyAccess', 'ExecStart']) + '=' + rnd.choice(ADV) for _ in range(rnd.randint(1, 3))]
    if rnd.random() < 0.5:
        lines += ['[Install]'] + [rnd.choice(['WantedBy', 'RequiredBy', 'Alias', 'DefaultInstance']) + '=' + ' '.join(rnd.choice(ADV) for _ in range(rnd.randint(0, 3))) for _ in range(rnd.randint(1, 4))]
    if rnd.random() < 0.3:
        lines += ['[Quadlet]', 'DefaultDependencies=' + rnd.choice(ADV)]
    if rnd.random() < 0.2:
        lines += ['[Unit]'] + [rnd.choice(['After', 'Description', 'SourcePath']) + '=' + rnd.choice(ADV)]
    rnd.shuffle(lines) if rnd.random() < 0.1 else None
    return '\n'.join(lines) + rnd.choice(['\n', '', '\\', '\n\\\n'])


def case_files():
    cdir = os.path.join(core.REPO, 'tests', 'cases')
    out = []
    if os.path.isdir(cdir):
        for fn in sorted(os.listdir(cdir)):
            p = os.path.join(cdir, fn)
            if os.path.isfile(p):
                out.append((fn, open(p, 'rb').read()))
    return out


def mutate(rnd, b):
    b = bytearray(b)
    for _ in range(rnd.randint(1, 4)):
        r = rnd.random()
        if r < 0.3 and b:
            del b[rnd.randrange(len(b))]
        elif r < 0.6:
            b.insert(rnd.randint(0, len(b)), rnd.choice(b'[]=\\\n"\'%@/:,. \x00\xff\xc3\x7f-'))
        elif b:
            i = rnd.randrange(len(b))
            b[i] = rnd.choice(b'[]=\\\n"\'%@/:, \x00\xff\xc3')
    return bytes(b)


NAMES = [b'a', b'a b', b'@', b'a@', b'@b', b'a@b@c', b'.', b'..x', b'.hidden', b'x.y.z', b'\xff\xfe', b'n\xffx', b'\xc3\xa9', b'a' * 200, b'-', b'%n', b'a\\x2db', b'a\nb', b'"q"', b"'", b'[x]', b'=', b'#',
         # file names at the limit of what a directory entry can hold: the service name is longer than the unit's name (…-volume.service)
         b'n' * 240, b'n' * 245, b'n' * 246, b'n' * 247]


# directories (below the search directory) the files are put in: the walk descends into them; their names are data too
SUBDIRS = [b'', b'', b'', b'sub', b'sub\xff', b'\xfe\xff/deep', b'a\nb', b' ', b'x' * 200, b'\xc3\xa9/\xc3', b'.hid', b'a.container', b'b.d', b'%n', b'"q"']


def corr_ops(ctx):
    """hook driver under catch_unwind: structured adversarial units of all types, alone and in sets"""
    rnd = ctx.rnd
    ops = []
    n = 8000 if ctx.thorough else 2000
    for _ in range(n):
        ty = rnd.choice(G.TYPES)
        name = rnd.choice(['a', 'web-1', 'tpl@', 'tpl@inst', 'x.y', '@', 'a@@b', '.x', 'é', '%i']) + '.' + ty
        ops.append(f'convert\t{rnd.choice("01")}\t0\t{hx("/q/" + name)}\t{hx(adv_unit(rnd, ctx.tables, ty))}')
    # decision logic over combinations of keys: every subset of the keys each handler function looks at (groups read off the source)
    for ty, text, fn in G.group_units(rnd, ctx.tables, core.REPO, reps=2 if ctx.thorough else 1):
        ops.append(f'convert\t{rnd.choice("01")}\t0\t{hx("/q/g." + ty)}\t{hx(text)}')
    for _ in range(n // 4):
        k = rnd.randint(2, 5)
        files = []
        for i in range(k):
            ty = rnd.choice(G.TYPES)
            files.append((rnd.choice(['x', 'a', 'b', 'p']) + str(i) + '.' + ty, adv_unit(rnd, ctx.tables, ty)))
        order = list(range(k))
        rnd.shuffle(order)
        ops.append('convert\t0\t' + ','.join(map(str, order)) + ''.join(f'\t{hx("/q/" + n_)}\t{hx(t)}' for n_, t in files))
    for _ in range(n):
        s = gen.rs(rnd, 20, gen.WIDE)
        ops += ['unquote\t' + hx(s), 'split_word\t' + hx(s), 'split_strv\t' + hx(s), 'parse\t' + hx(gen.rs(rnd, 40, ['[', ']', 'A', '=', ' ', '\n', '\\', '#', '"', 'é', '\x00']))]
        ops += ['clean\t' + hx(s), 'specifier\t' + hx(s), 'template_parts\t' + hx(s), 'port_range\t' + hx(s), 'mount_type\t' + hx(rnd.choice(ADV))]
    return ops


def project(op, out):
    # this property observes only whether the call terminated normally; the model never answers `panic`
    if out in ('panic', 'crash', 'hang'):
        return out
    return 'terminated'


def nontrivial(op, out):
    return out.startswith('ok') and len(out) > 20


def oracle(ctx):
    core.io_inventory_obligation(ctx.res, ('read', 'metadata'))
    res = ctx.res
    rnd = ctx.rnd
    # (T1) inventory vs classification
    rc, out, err = core.sh([sys.executable, os.path.join(core.VERIF, 'tools', 'panic_inventory.py'), core.REPO, os.path.join(core.BUILD, 'panic_sites.json')])
    sites = json.load(open(os.path.join(core.BUILD, 'panic_sites.json'))) if rc == 0 else []
    spec = json.load(open(os.path.join(core.VERIF, 'spec', 'panic_sites.json')))
    known = {(s['file'], s['fn'], s['kind'], s['snippet'], s['n']) for s in spec}
    unclassified = [s for s in sites if (s['file'], s['fn'], s['kind'], s['snippet'], s['n']) not in known]
    res.extra_obligations.append(('panic-site inventory matches the reviewed classification (spec/panic_sites.json)', rc == 0 and not unclassified,
                                  'unclassified sites: ' + '; '.join(f'{s["file"]}:{s["fn"]}: {s["snippet"]}' for s in unclassified[:6])))
    res.notes.append(f'{len(sites)} panic sites inventoried, {len(unclassified)} unclassified')
    # (T2) the hook driver's answers: any panic / crash / hang is a failing input
    ops = corr_ops(ctx) if ctx.deep else []
    if unclassified:
        # focus the search on the functions that hold an unclassified site
        res.notes.append('search focused on: ' + ', '.join(sorted({s['fn'] for s in unclassified})))
    io = ctx.impl(ops, timeout=300) if ops else []
    for op, a in zip(ops, io):
        res.oracle_evals += 1
        if a in ('panic', 'crash', 'hang'):
            res.oracle_failures.append(dict(op=op, input=core.dec_line(op)[:1500], impl_output=a, oracle_expectation='the call returns (a value or an error)'))
    # the binary on adversarial trees
    cfs = case_files()
    trees_ = []
    for _ in range(400 if ctx.thorough else 100):
        files = {}
        for _ in range(rnd.randint(1, 5)):
            ty = rnd.choice(G.TYPES)
            name = rnd.choice(NAMES) + b'.' + ty.encode()
            r = rnd.random()
            if r < 0.4 and cfs:
                content = mutate(rnd, rnd.choice(cfs)[1])
            elif r < 0.8:
                content = adv_unit(rnd, ctx.tables, ty).encode('utf-8', 'surrogateescape')
            else:
                content = bytes(rnd.randrange(256) for _ in range(rnd.randint(0, 200)))
            sub = rnd.choice(SUBDIRS)
            d = b'src/' + (sub + b'/' if sub else b'')
            files[d + name] = content
            if rnd.random() < 0.3:
                # drop-ins next to the unit, or in the top directory for a unit in a sub-directory
                dd = rnd.choice([d, b'src/'])
                files[dd + name + b'.d/' + rnd.choice([b'10.conf', b'\xff.conf', b'sub/n.conf', b'x.txt', b'\xff\xfe/n.conf'])] = mutate(rnd, content)
        trees_.append(files)

    # long messages: input text is copied into log messages of any length; the default logging (to /dev/kmsg, with its record
    # size limit) and -v are part of the environment.  Multi-byte characters at every alignment, lengths around 1 KiB and beyond
    long_trees = []
    for ch in ('ä', '日', '𝄞'):
        for L in (330, 500, 1100, 5000):
            for shift in range(4):
                v = 'x' * shift + ch * L
                long_trees.append({b'src/a.container': f'[Container]\nImage={v}\n'.encode(),
                                   b'src/b.container': f'[Container]\nImage=localhost/i\nNetwork={v}.network\n'.encode(),
                                   b'src/c.kube': f'[Kube]\nYaml=/k.yaml\n[Service]\nKillMode={v}\n'.encode(),
                                   ('src/' + v[:80] + '.volume').encode(): f'[Volume]\n{ "Bogus" }={v}\n'.encode()})
    if not ctx.thorough:
        long_trees = rnd.sample(long_trees, 16)
    # shapes of the directory tree: links between directories — a loop, a link to the parent, a dangling link, and a loop-free
    # lattice (every level links three times to the next: 20 directories, 3^19 paths) — the walk must end whatever it follows
    unit = b'[Container]\nImage=localhost/i\n'
    lattice = {b'src/n%02d/%s' % (i, l): ('link', b'../n%02d' % (i + 1)) for i in range(19) for l in (b'a', b'b', b'c')}
    lattice[b'src/n19/deep.container'] = unit
    lattice[b'src/top.container'] = unit
    inst = lambda body: b'[Container]\nImage=localhost/i\n[Install]\n' + body
    long_trees += [{b'src/web.container': inst(b'Alias=extra/web.service extra\n'), b'src/later.pod': b'[Pod]\n'},
                   {b'src/a.container': inst(b'WantedBy=foo.target\n'), b'src/b.container': inst(b'Alias=foo.target.wants\nAlias=foo.target.wants/x\n')},
                   {b'src/c.container': inst(b'Alias=c.service/x c.service sub sub/y sub\nWantedBy=sub\nRequiredBy=sub/z\n')},
                   {b'src/t@.container': inst(b'DefaultInstance=a/b\nAlias=t@.service t@x.service\nWantedBy=w.target\n')}]
    long_trees += [lattice,
                   {b'src/a/x.container': unit, b'src/a/to-b': ('link', b'../b'), b'src/b/y.container': unit, b'src/b/to-a': ('link', b'../a')},
                   {b'src/sub/x.container': unit, b'src/sub/up': ('link', b'..'), b'src/sub/self': ('link', b'.'), b'src/gone': ('link', b'nowhere')},
                   {b'src/x.container': unit, b'src/x.container.d/loop': ('link', b'../x.container.d'), b'src/x.container.d/10.conf': b'[Container]\nLabel=a=b\n'}]
    # counts are input too: very many harmless lines in a row (comment lines, blank lines, entries, repeated headers) — in a section, before
    # the first section, in a drop-in; whatever a reader does per line must not add up (stack, quadratic time)
    N = 600000 if ctx.thorough else 250000
    long_trees += [{b'src/many.container': unit + b'#c\n' * N + b'Exec=/bin/true\n', b'src/ok.volume': b'[Volume]\n'},
                   {b'src/many.container': b';c\n' * N + unit, b'src/ok.volume': b'[Volume]\n'},
                   {b'src/many.container': unit, b'src/many.container.d/10.conf': b'[Container]\n' + b'# c\n' * N + b'Label=a=b\n'},
                   {b'src/many.container': unit + b'\n' * N + b'Label=a=b\n'},
                   {b'src/many.container': unit + b'Label=k=v\n' * (N // 10)},
                   {b'src/many.container': unit + b'[Container]\n' * (N // 10)},
                   {b'src/many.container': unit + b'Exec=a ' + b'\\\n#c\n' * (N // 10) + b'b\n'}]
    # values that contain the specifier they are substituted for, or themselves: every name the generator derives (service name,
    # container name, pod name, resource names looked up by other units) is computed in one pass
    for k, v in ((b'ServiceName', b'%N'), (b'ServiceName', b'web-%N'), (b'ContainerName', b'%N-%N'), (b'ServiceName', b'%N%N%N'),
                 (b'ContainerName', b'systemd-%N'), (b'ServiceName', b'systemd-%N')):
        long_trees.append({b'src/self.container': b'[Container]\nImage=i\n' + k + b'=' + v + b'\n', b'src/ok.volume': b'[Volume]\n'})
        long_trees.append({b'src/self.container': b'[Container]\nImage=i\n', b'src/self.container.d/10.conf': b'[Container]\n' + k + b'=' + v + b'\n',
                           b'src/ref.container': b'[Container]\nImage=i\nNetwork=self.container\n'})
    long_trees += [{b'src/self.pod': b'[Pod]\nServiceName=%N\nPodName=%N\n', b'src/m.container': b'[Container]\nImage=i\nPod=self.pod\n'},
                   {b'src/self.volume': b'[Volume]\nVolumeName=%N\nServiceName=%N-%N\n', b'src/m.container': b'[Container]\nImage=i\nVolume=self.volume:/d\n'},
                   {b'src/self.build': b'[Build]\nImageTag=%N\nFile=/f\nServiceName=b-%N\n', b'src/m.container': b'[Container]\nImage=self.build\n'}]
    # not everything in a directory is a regular file: a FIFO, a link to a device that never ends (/dev/zero) or never answers, a socket-like
    # special file — named like a unit or like a drop-in — is reported for itself; the run ends and the units beside it are generated (D22)
    long_trees += [{b'src/f.container': ('fifo',), b'src/ok.volume': b'[Volume]\n'},
                   {b'src/z.kube': ('link', b'/dev/zero'), b'src/ok.volume': b'[Volume]\n'},
                   {b'src/ok.volume': b'[Volume]\n', b'src/ok.volume.d/10.conf': ('fifo',), b'src/fine.network': b'[Network]\n'},
                   {b'src/ok.volume': b'[Volume]\n', b'src/ok.volume.d/10.conf': ('link', b'/dev/zero'), b'src/fine.network': b'[Network]\n'},
                   {b'src/sub/deep/p.pod': ('fifo',), b'src/n.network': ('link', b'/dev/full'), b'src/ok.volume': b'[Volume]\n'}]
    n_adv = len(trees_)
    trees_ += long_trees

    def run(files):
        base = e2e.fresh_dir()
        os.makedirs(os.path.join(base, 'src'))
        for rel, content in files.items():
            p = os.path.join(base.encode(), rel)
            try:
                os.makedirs(os.path.dirname(p), exist_ok=True)
                if isinstance(content, tuple):
                    if content[0] == 'fifo':
                        os.mkfifo(p)
                    else:
                        os.symlink(content[1], p)
                    continue
                with open(p, 'wb') as f:
                    f.write(content)
            except OSError:
                pass
        r = []
        # "for that file only": a plain unit that is processed late (a .pod, after everything else) sits in every tree; whatever the
        # other files are, a run that ends on its own has generated it
        try:
            with open(os.path.join(base, 'src', 'zz-bystander.pod'), 'w') as f:
                f.write('[Pod]\n')
        except OSError:
            pass
        for args in (['--dry-run', '--no-kmsg-log'], ['--no-kmsg-log'], ['-v'], []):
            out = os.path.join(base, 'out' + str(len(r)))
            rc, so, se = e2e.run_binary(args + [out], os.path.join(base, 'src'), timeout=10)
            by = ('zz-bystander-pod.service' in so) if '--dry-run' in args else os.path.isfile(os.path.join(out, 'zz-bystander-pod.service'))
            r.append((rc, se[-400:] + ('' if by or rc not in (0, 1) else ' [BYSTANDER-MISSING]')))
        # the place the dry run prints to is part of the run too: a full device or a reader that went away (D25: the generator panicked)
        import subprocess
        env = {k: v for k, v in os.environ.items() if k not in ('PODMAN', 'QUADLET_UNIT_DIRS')}
        env['QUADLET_UNIT_DIRS'] = os.path.join(base, 'src')
        for sink in ('full', 'closed-pipe'):
            try:
                if sink == 'full':
                    with open('/dev/full', 'w') as f:
                        p = subprocess.run([core.BIN, '--dry-run', '--no-kmsg-log'], env=env, stdout=f, stderr=subprocess.PIPE, timeout=10)
                    rc, se = p.returncode, p.stderr.decode('utf-8', 'replace')
                else:
                    pr = subprocess.Popen([core.BIN, '--dry-run', '--no-kmsg-log'], env=env, stdout=subprocess.PIPE, stderr=subprocess.DEVNULL)
                    pr.stdout.close()   # nobody reads: the first write fails with EPIPE
                    try:
                        rc, se = pr.wait(timeout=10), ''
                    except subprocess.TimeoutExpired:
                        pr.kill()
                        pr.wait()
                        raise
            except subprocess.TimeoutExpired:
                rc, se = 'timeout', ''
            r.append((rc, f'[stdout {sink}] ' + se[-300:]))
        shutil.rmtree(base, ignore_errors=True)
        return r
    for files, rs in zip(trees_, e2e.pmap(run, trees_)):
        for (rc, se), mode in zip(rs, ('--dry-run', 'normal run', 'normal run, logging to /dev/kmsg, -v', 'normal run, logging to /dev/kmsg', '--dry-run printing to /dev/full', '--dry-run printing to a pipe nobody reads')):
            res.oracle_evals += 1
            if rc in (0, 1) and '[BYSTANDER-MISSING]' in se and not any(k.endswith(b'zz-bystander.pod') or b'zz-bystander' in k for k in files):
                res.oracle_failures.append(dict(op='e2e', input={k.decode('utf-8', 'backslashreplace')[:300]: (str(v) if isinstance(v, tuple) else v.decode('utf-8', 'backslashreplace')[:300]) for k, v in files.items()},
                                                impl_output=f'{mode}: exit status {rc}; {se}', oracle_expectation='the unrelated unit zz-bystander.pod of the same tree is generated: a file that cannot be handled is an error for that file only'))
            if rc not in (0, 1):
                res.oracle_failures.append(dict(op='e2e', input={k.decode('utf-8', 'backslashreplace')[:300]: (str(v) if isinstance(v, tuple) else v.decode('utf-8', 'backslashreplace') if len(v) < 600 else v[:200].decode('utf-8', 'replace') + f' … [{len(v)} bytes]') for k, v in files.items()},
                                                impl_output=f'{mode}: exit status {rc}; {se}', oracle_expectation='terminates on its own with exit status 0 or 1'))
    res.samples.append(dict(kind='adversarial-tree', files={k.decode('utf-8', 'backslashreplace'): v.decode('utf-8', 'backslashreplace')[:200] for k, v in trees_[0].items()}))
    ctx.log(f'oracle: {res.oracle_evals} evaluations, {len(res.oracle_failures)} failures')
