"""C01 — quoted podman command lines split back into exactly the intended arguments"""
import gen_units as G
import core, gen
from core import hx, unhx

LEAN_MODULE = 'QM.Props.C01'
THEOREMS = ['P.C01_roundtrip', 'P.C01_count', 'P.C01_empty_kept',
            'Cv.C01_container_exec_lines', 'Cv.C01_pod_exec_lines', 'Cv.C01_kube_exec_lines', 'Cv.C01_volume_exec_lines', 'Cv.C01_network_exec_lines', 'Cv.C01_build_exec_lines',
            'Cv.execs_of', 'Cv.execs_fromContainer',
            # facts about the tables extracted from quoted.rs that the round-trip proof rests on
            'P.quoteArms_sound', 'P.quoteDefaultFmt_eq', 'P.threshold_le', 'P.escChars_ascii', 'P.active_needsEsc']
ASSUMPTIONS = [
    'P.Spec.extractFirst / decode specCfg are a character-level transcription of systemd extract_first_word / cunescape_one (DESIGN.md appendix A); systemd itself is not available in the sandbox',
    'P.quoteWords is hand-written control flow over the extracted tables; tied to quote_words by the correspondence run',
    'outside the statement: a lone ";" argument and a leading "-" are interpreted above extract_first_word by config_parse_exec',
]
LEVEL_TEXT = ('Proof: Lean theorem C01_roundtrip — for every list of NUL-free words, iterating the transcription of systemd\'s '
              'extract_first_word(UNQUOTE|CUNESCAPE) over the model of quote_words returns exactly the words (induction over words and characters, '
              'no bound). The model takes its escape arms, character classes and threshold from the Rust source on every run (T1), so the theorem '
              'is re-checked against what the code says now; its control flow is tied by correspondence. For every converter model, every Exec*= '
              'entry of the generated [Service] is proved to be either one of the user\'s own [Service] entries or quote_words of an argument vector '
              '(C01_<type>_exec_lines: add / set / prepend never write an Exec key, add_raw only receives renderings), which systemd therefore splits '
              'into exactly that vector (.image: C02_image_shape). The oracle applies the specification '
              'splitter to the real quote_words output and to every Exec* line of really converted units.')
LEVEL_NOTE = ('Trusted: Lean kernel; the transcription of systemd\'s splitter; extractor; correspondence on generated inputs. '
              'The converter models are tied to convert.rs by the convert correspondence and by the raw-store site inventory (C06).')
TECHNIQUE = 'Lean 4 proof of the quote/split round trip over tables regenerated from the source + correspondence + spec oracle on real output'


def corr_ops(ctx):
    ctx._c01_vecs = gen.word_vectors(ctx, 20000 if ctx.thorough else 4000)
    ops = ['quote_words' + ''.join('\t' + hx(w) for w in ws) for ws in ctx._c01_vecs]
    ops += ['quote_value\t' + hx(w) for ws in ctx._c01_vecs[:3000] for w in ws[:1]]
    return ops


def nontrivial(op, out):
    # a vector is non-trivial when at least one word needed quoting
    return out.startswith('ok') and '22' in out


WS_LIKE = [' ', '\t', '\r', '\x0b', '\x0c', '\x1c', '\x1d', '\x1e', '\x1f', '\x85', '\xa0', '\u1680', '\u2000', '\u2003', '\u200a', '\u200b', '\u2028', '\u2029',
           '\u202f', '\u205f', '\u3000', '\ufeff', '\x7f', '\x01']
EXEC_KEYS = ['ExecStart', 'ExecStartPre', 'ExecStop', 'ExecStopPost', 'ExecReload', 'ExecStartPost']


def oracle(ctx):
    res = ctx.res
    vecs = getattr(ctx, '_c01_vecs', None) or gen.word_vectors(ctx, 4000)
    ops = ['quote_words' + ''.join('\t' + hx(w) for w in ws) for ws in vecs]
    io = ctx.impl(ops)
    spec_in, idx = [], []
    for i, (ws, a) in enumerate(zip(vecs, io)):
        res.oracle_evals += 1
        if not a.startswith('ok x'):
            res.oracle_failures.append(dict(op=ops[i], input=ws, impl_output=a, oracle_expectation='a rendered command line'))
            continue
        spec_in.append('spec_split_exec\t' + a[3:])
        idx.append(i)
    so = ctx.model(spec_in)
    for i, line, b in zip(idx, spec_in, so):
        want = 'ok [' + ' '.join(hx(w) for w in vecs[i]) + ']'
        if b != want:
            res.oracle_failures.append(dict(op=ops[i], input=vecs[i], impl_output=core.dec_line(io[i]),
                                            oracle_expectation='systemd splitting (Spec.extractFirst execFlags, iterated) yields exactly the input words',
                                            spec_split_of_impl_output=core.dec_line(b)))
    # Exec* lines of really converted units: they must be renderings, and the Exec= arguments must survive
    rnd = ctx.rnd
    cases = []
    for _ in range(600 if ctx.thorough else 150):
        args = [gen.rs(rnd, 6, [c for c in gen.ALPHA if c not in '\n']) for _ in range(rnd.randint(0, 4))]
        args = [a for a in args if a.strip(' \t') != '' or a == '']
        # write Exec= with the repository's own quoting so that the intended words are known
        cases.append(args)
    # boundary placements: every white-space-like character (ASCII, Unicode White_Space, controls) at the start / end of the
    # first / last word and as a word of its own — where trimming of the stored line would bite
    forced = set()
    for c in WS_LIKE:
        for args in (['foo' + c], [c], ['foo', c], [c + 'foo'], ['a' + c, 'b'], [c, 'b'], ['foo' + c + c], ['x', 'foo' + c + 'bar' + c]):
            forced.add(len(cases))
            cases.append(args)
    qops = ['quote_words' + ''.join('\t' + hx(w) for w in args) for args in cases]
    qo = ctx.impl(qops)
    units, keep = [], []
    for ci, (args, q) in enumerate(zip(cases, qo)):
        if not q.startswith('ok x'):
            continue
        line = unhx(q[3:])
        if ci in forced:
            # every word wholly double-quoted in the unit file (a documented spelling), so that the reader's trimming of
            # the *file's* line ends does not touch the words
            line = ' '.join('"' + ''.join('\\x%02x' % ord(ch) if ord(ch) < 0x20 or ord(ch) == 0x7f else '\\' + ch if ch in '"\\' else ch for ch in w) + '"' for w in args)
        if '\n' in line:
            continue
        name = gen.rs(rnd, 5, ['a', 'b', ' ', 'é', '-', ':']).strip() or 'x'
        text = f'[Container]\nImage=img\nContainerName={name}\nExec={line}\n'
        units.append(f'convert\t0\t0\t{hx("/q/a b.container")}\t{hx(text)}')
        keep.append((args, name))
    # every unit type (the Exec* lines of .kube, .pod, .volume, … are rendered at other call sites), values that need quoting
    import props.c06 as c06
    for _ in range(1500 if ctx.thorough else 400):
        ty = rnd.choice(G.TYPES)
        units.append(f'convert\t0\t0\t{hx("/q/my unit." + ty)}\t{hx(c06.gen_unit(ctx, ty))}')
        keep.append((None, None))
    co = ctx.impl(units)
    spec_in, meta = [], []
    for (args, name), op, a in zip(keep, units, co):
        res.oracle_evals += 1
        if not a.startswith('ok svc '):
            continue
        toks = a.split(' ')
        for i in range(len(toks) - 1):
            if toks[i].startswith('K') and unhx(toks[i][1:]) in EXEC_KEYS:
                spec_in.append('spec_split_exec\t' + toks[i + 1][1:])
                meta.append((op, unhx(toks[i][1:]), toks[i + 1][1:], args, name))
    so = ctx.model(spec_in)
    requote = ['quote_words' + ''.join('\t' + t for t in b[4:-1].split(' ') if t) if b.startswith('ok [') else 'quote_words' for b in so]
    ro = ctx.impl(requote)
    for (op, key, rawhex, args, name), b, r in zip(meta, so, ro):
        res.oracle_evals += 1
        fail = None
        if not b.startswith('ok ['):
            fail = f'{key} line is rejected by systemd\'s splitter'
        else:
            words = [unhx(t) for t in b[4:-1].split(' ') if t]
            if r != 'ok ' + rawhex:
                fail = f'{key} line is not the rendering of the words it splits into'
            elif key == 'ExecStart' and args is not None:
                exp_tail = args
                if (args and words[len(words) - len(args):] != exp_tail) or 'img' not in words:
                    fail = f'ExecStart does not end with the Exec= arguments {args}: {words}'
                elif '--name' not in words or words[words.index('--name') + 1] != name:
                    fail = f'--name is not followed by the container name {name!r}: {words}'
        if fail:
            res.oracle_failures.append(dict(op=op, impl_output=core.dec_line(rawhex), oracle_expectation=fail))
    # the intended arguments, stated independently of the line: every documented key whose option carries the value's text, with values
    # that need quoting — the documented option group must be found, byte for byte and as consecutive arguments, in what systemd's
    # splitter makes of the generated line (whatever route the value takes into the command inside the generator)
    from props import c02
    NASTY = ['a b', 'two  blanks', 'tab\there', 'q"r', "it's", 'back\\slash', 'é x', 'semi;colon x', '$VAR x', 'p%q r', 'trail ', ' lead', "mix \"' x"]
    k_ops, k_meta = [], []
    for ty in G.TYPES:
        for key, kind, spec in c02.key_specs(ty):
            if not (kind in ('str', 'all', 'allg') or (kind == 'special' and callable(spec))):
                continue
            for v in rnd.sample(NASTY, 13 if ctx.thorough else 3):
                want = [spec, v] if kind in ('str', 'all', 'allg') else spec(v)
                if isinstance(want, tuple):
                    want = [want[1], want[2]]
                text = '[' + G.SEC[ty] + ']\n' + '\n'.join(G.BASE[ty] + [f'{key}={c02.dq(v)}']) + '\n'
                k_ops.append(f'convert\t0\t0\t{hx("/q/k." + ty)}\t{hx(text)}')
                k_meta.append((ty, key, v, want, text))
    k_out = ctx.impl(k_ops)
    k_av = c02.argv(ctx, k_out)
    for (ty, key, v, want, text), op, a, av in zip(k_meta, k_ops, k_out, k_av):
        res.oracle_evals += 1
        if av is None:
            continue   # rejected for its value (enumerated keys): not a statement about the line
        if not any(av[i:i + len(want)] == want for i in range(len(av) - len(want) + 1)):
            res.oracle_failures.append(dict(op=op, input=dict(unit=text, key=key, value=v), impl_output=str(av),
                                            oracle_expectation=f'{key}={v!r} of a .{ty}: the arguments {want} reach podman as written (consecutive, byte-identical) after systemd splits the line'))
    # the executable is an argument too: it comes from the environment (PODMAN) and may need quoting
    import e2e, os, re as _re, shutil
    for podman in ('/opt/container tools/podman', '/opt/it\'s/podman', '/opt/q"uote/podman', '/opt/back\\slash/podman', '/opt/tab\there/podman', '/opt/é/podman'):
        base = e2e.fresh_dir()
        os.makedirs(os.path.join(base, 'src'))
        with open(os.path.join(base, 'src', 'web.container'), 'w') as f:
            f.write('[Container]\nImage=localhost/i\n')
        with open(os.path.join(base, 'src', 'grp.pod'), 'w') as f:
            f.write('[Pod]\n')
        with open(os.path.join(base, 'src', 'k.kube'), 'w') as f:
            f.write('[Kube]\nYaml=/k.yaml\n')
        rc, so, se = e2e.run_binary(['--dry-run', '--no-kmsg-log', os.path.join(base, 'out')], os.path.join(base, 'src'), extra_env={'PODMAN': podman})
        shutil.rmtree(base, ignore_errors=True)
        lines = _re.findall(r'^(Exec\w+)=(.*)$', so, _re.M)
        outs = ctx.model(['spec_split_exec\t' + hx(v) for _, v in lines])
        res.oracle_evals += 1
        if len(lines) < 7:
            res.oracle_failures.append(dict(op='e2e PODMAN', input=podman, impl_output=so[-600:] + se[-300:], oracle_expectation='the three units convert and print their Exec lines'))
        for (k, v), b in zip(lines, outs):
            words = [unhx(t) for t in b[4:-1].split(' ') if t] if b.startswith('ok [') else None
            if not words or words[0] not in (podman, '-' + podman):
                res.oracle_failures.append(dict(op='e2e PODMAN', input=dict(PODMAN=podman, key=k), impl_output=v,
                                                oracle_expectation=f'the first argument of {k} is the executable {podman!r} (got {words[:3] if words else b})'))
                break
    if meta:
        res.samples.append(dict(kind='oracle-case', exec_line=unhx(meta[0][2]), intended_tail=meta[0][3]))
    # from the unit to the line: the arguments systemd's splitter finds in the user's Exec= / PodmanArgs= (escapes are decoded in both kinds of
    # quotes and outside them) are the arguments it finds at the end of the generated line
    UW = ["'tab\\there'", "'a\\x7cb'", '"dq\\tq"', "'it\\'s'", 'bare\\x20word', "'printf \"a\\\\tb\"'", "'sq plain'", '"a b"', "'\\u00e9'", 'plain', "''", "'x\\\\'"]
    ucases = []
    for _ in range(120 if ctx.thorough else 40):
        words = [rnd.choice(UW) for _ in range(rnd.randint(1, 4))]
        key = rnd.choice(['Exec', 'PodmanArgs'])
        ucases.append((key, ' '.join(words)))
    uops = [f'convert\t0\t0\t{hx("/q/u.container")}\t{hx("[Container]" + chr(10) + "Image=localhost/i" + chr(10) + key + "=" + val + chr(10))}' for key, val in ucases]
    uio = ctx.impl(uops)
    uwant = ctx.model(['spec_split_args\t' + hx(val) for key, val in ucases])
    for (key, val), op, a, w in zip(ucases, uops, uio, uwant):
        import canon as _canon
        r = _canon.parse_convert(a)[0]
        if r[0] != 'svc' or not w.startswith('ok ['):
            continue
        res.oracle_evals += 1
        want = [unhx(t) for t in w[4:-1].split(' ') if t]
        ex = [v for k, v in r[2].get('Service', []) if k == 'ExecStart']
        b = ctx.model(['spec_split_exec\t' + hx(ex[-1])])[0] if ex else 'none'
        av = [unhx(t) for t in b[4:-1].split(' ') if t] if b.startswith('ok [') else []
        ok = (av[-len(want):] == want) if key == 'Exec' else any(av[i:i + len(want)] == want for i in range(len(av)))
        if want and not ok:
            res.oracle_failures.append(dict(op=op, input=f'{key}={val}', impl_output=str(av[-8:]), oracle_expectation=f'the arguments systemd reads from the value, {want}, are arguments of the generated line'))
    # the line as it is *written*: a normal run and a dry run of the real binary, the service text read the way systemd reads it (a
    # backslash at the end of a line continues it, joined with one blank) and split — for command lines of every length, the long ones
    # with blanks inside quoted arguments at every position
    import e2e, os, shutil
    lcases = []
    for n in ([40, 900, 1990, 2040, 3600, 9000] if not ctx.thorough else [40, 500, 1000, 1500, 1990, 2000, 2040, 2100, 3600, 4100, 8200, 9000, 70000]):
        for shift in range(3):
            sentence = ' '.join('w%04d' % i for i in range(n // 6)) + 'x' * shift
            lcases.append(sentence)

    def run_long(sentence):
        base = e2e.fresh_dir()
        e2e.write_tree(base, {'src/long.container': f'[Container]\nImage=localhost/i\nExec=echo "{sentence}" tail "a b"\n'})
        out = os.path.join(base, 'out')
        rc1, so, se = e2e.run_binary(['--dry-run', '--no-kmsg-log', out], os.path.join(base, 'src'))
        rc2, so2, se2 = e2e.run_binary(['--no-kmsg-log', out], os.path.join(base, 'src'))
        try:
            written = open(os.path.join(out, 'long.service'), encoding='utf-8').read()
        except OSError:
            written = ''
        shutil.rmtree(base, ignore_errors=True)
        return so, written

    def systemd_lines(text):
        joined, cur = [], None
        for l in text.split('\n'):
            if cur is not None:
                cur = cur + ' ' + l if not l.lstrip().startswith(('#', ';')) else cur + ' '
                l = cur
                cur = None
            if l.endswith('\\'):
                cur = l[:-1]
                continue
            joined.append(l)
        return joined
    for sentence, (printed, written) in zip(lcases, e2e.pmap(run_long, lcases)):
        for what, text in (('--dry-run output', printed), ('service file', written)):
            res.oracle_evals += 1
            ex = [l[len('ExecStart='):] for l in systemd_lines(text) if l.startswith('ExecStart=')]
            b = ctx.model(['spec_split_exec\t' + hx(ex[-1])])[0] if ex else 'none'
            words = [unhx(t) for t in b[4:-1].split(' ') if t] if b.startswith('ok [') else None
            if not words or words[-4:] != ['echo', sentence, 'tail', 'a b']:
                res.oracle_failures.append(dict(op='e2e long line', input=f'Exec=echo "<{len(sentence)} bytes: w0000 w0001 …>" tail "a b"',
                                                impl_output=f'{what}: last arguments {[w[:30] + "…" + w[-30:] if len(w) > 70 else w for w in (words or [])[-4:]]} (lengths {[len(w) for w in (words or [])[-4:]]})',
                                                oracle_expectation=f'read as systemd reads the file, ExecStart ends with echo, the {len(sentence)}-byte sentence byte for byte, tail, "a b"'))
    # every command line of one service starts with the same base command (the executable and the global arguments), whatever else the
    # unit holds — in particular whatever [Service] keys of the user's make the converter rewrite entries after a line was stored
    import canon
    GW = ['--log-level', 'debug info', '--root', '/var/lib/my containers', '--x=a b', "it's", 'q"r', 'plain', 'tab\there', '']
    def dqw(w):
        return '"' + w.replace('\\', '\\\\').replace('"', '\\"').replace('\t', '\\t') + '"'
    bases, bops = [], []
    for _ in range(240 if ctx.thorough else 60):
        ty = rnd.choice(['container', 'container', 'kube', 'pod', 'volume', 'network', 'image', 'build'])
        gw = [rnd.choice(GW) for _ in range(rnd.randint(1, 4))]
        L = ['[' + G.SEC[ty] + ']'] + list(G.BASE[ty]) + ['GlobalArgs=' + ' '.join(dqw(w) for w in gw)]
        mod = rnd.choice([None, '/etc/my conf/m.conf', '/etc/m.conf'])
        if mod:
            L.append('ContainersConfModule=' + mod)
        svc = rnd.sample(['Type=notify', 'NotifyAccess=all', 'NotifyAccess=main', 'Type=oneshot', 'Type=simple', 'Restart=always', 'KillMode=mixed', 'RemainAfterExit=yes', 'SyslogIdentifier=x y'],
                         rnd.randint(0, 3))
        if svc:
            L = (['[Service]'] + svc + L) if rnd.random() < 0.5 else (L + ['[Service]'] + svc)
        text = '\n'.join(L) + '\n'
        want = ['/usr/bin/podman'] + (['--module', mod] if mod else []) + gw
        bases.append((ty, text, want))
        bops.append(f'convert\t0\t0\t{hx("/q/b." + ty)}\t{hx(text)}')
    for (ty, text, want), op, a in zip(bases, bops, ctx.impl(bops)):
        r = canon.parse_convert(a)[0]
        if r[0] != 'svc':
            continue
        res.oracle_evals += 1
        lines = [(k, v) for k, v in r[2].get('Service', []) if k.startswith('Exec') and '/usr/bin/podman' in v]
        outs = ctx.model(['spec_split_exec\t' + hx(v) for k, v in lines])
        for (k, v), b in zip(lines, outs):
            words = [unhx(t) for t in b[4:-1].split(' ') if t == 'x' or t] if b.startswith('ok [') else None
            if words is None:
                res.oracle_failures.append(dict(op=op, input=text, impl_output=f'{k}={v}', oracle_expectation='the line splits'))
                break
            if words and words[0].startswith('-'):
                words[0] = words[0][1:]
            if words[:len(want)] != want and sorted(words[:len(want)]) != sorted(want):
                res.oracle_failures.append(dict(op=op, input=text, impl_output=f'{k}: {words[:len(want) + 2]}',
                                                oracle_expectation=f'{k}= starts with the base command {want} (executable, --module, the global arguments as written)'))
                break
    ctx.log(f'oracle: {res.oracle_evals} evaluations, {len(res.oracle_failures)} failures')
