"""C02 — each supported key adds exactly its documented podman option, value intact"""
import json, os
import core, gen, gen_units as G, canon
from core import hx, unhx

LEAN_MODULE = 'QM.Props.C02Delta'
ROWTHMS = ['rows_from_build_unit_all_string_keys', 'rows_from_build_unit_bool_keys', 'rows_from_build_unit_string_keys',
           'rows_from_container_unit_all_string_keys', 'rows_from_container_unit_bool_keys', 'rows_from_container_unit_string_keys',
           'rows_from_image_unit_bool_keys', 'rows_from_image_unit_string_keys', 'rows_from_network_unit_bool_keys',
           'rows_from_network_unit_inline_lookup_and_add_all_strings', 'rows_from_network_unit_string_keys',
           'rows_from_pod_unit_all_string_keys', 'rows_from_pod_unit_string_keys',
           'rows_get_base_podman_command_inline_lookup_and_add_all_strings', 'rows_handle_health_key_arg_map',
           'rows_handle_publish_ports_inline_lookup_and_add_all_strings']
THEOREMS = (['Cv.C02_frame_string', 'Cv.C02_frame_all', 'Cv.C02_frame_bool', 'Cv.C02_row_string', 'Cv.C02_row_all', 'Cv.C02_row_bool',
             'Cv.C02_add_key_string', 'Cv.C02_add_key_all', 'Cv.C02_add_key_bool', 'Cv.C02_other_key_string', 'Cv.C02_image_shape',
             'Cv.C02_network_shape', 'Cv.C02_pod_shape', 'Cv.C02_kube_shape', 'Cv.C02_build_shape', 'Cv.C02_container_shape', 'Cv.C02_volume_shape',
             'Cv.HasExec.splits', 'Cv.rowString_infix', 'Cv.C02_string_option_reaches_podman',
             'Cv.cmd_delta', 'Cv.cmd_unread', 'Cv.split_at_reader', 'Cv.delta_of_segs', 'Cv.imageCmd_segs', 'Cv.imageSegs_local', 'Cv.imageKeys_nodup', 'Cv.imageKeys_documented',
             'Cv.imageKeys_complete', 'Cv.C02_image_delta', 'Cv.C02_image_unread', 'Cv.C02_image_add_key', 'Cv.fromNetwork_segs', 'Cv.networkSegs_local', 'Cv.networkKeys_nodup',
             'Cv.networkKeys_documented', 'Cv.networkKeys_complete', 'Cv.C02_network_delta', 'Cv.C02_network_unread',
             'Cv.foldlM_fst', 'Cv.handleNetworks_args', 'Cv.handleVolumes_args', 'Cv.handleUserMappings_congr', 'Cv.fromPod_segs', 'Cv.podSegs_local', 'Cv.podKeys_nodup',
             'Cv.podKeys_documented', 'Cv.podKeys_complete', 'Cv.C02_pod_delta', 'Cv.fromKube_segs', 'Cv.kubeSegs_local', 'Cv.kubeKeys_nodup', 'Cv.kubeKeys_complete', 'Cv.C02_kube_delta',
             'Cv.volumeOpts_args', 'Cv.fromVolume_segs', 'Cv.volumeSegs_local', 'Cv.volumeKeys_nodup', 'Cv.volumeKeys_documented', 'Cv.volumeKeys_complete', 'Cv.C02_volume_delta',
             'Cv.mounts_args', 'Cv.handlePod_args', 'Cv.typeAndNotify_block', 'Cv.image_name', 'Cv.containerSegs_local', 'Cv.containerCmd_segs', 'Cv.fromContainer_segs',
             'Cv.containerKeys_nodup', 'Cv.containerKeys_documented', 'Cv.containerKeys_complete', 'Cv.C02_container_delta'] +
            ['Conform.' + t for t in ROWTHMS] + ['Conform.lookup_kinds'])
ASSUMPTIONS = [
    '"adding the key changes nothing else in the command" is a theorem for the .image, .network, .pod, .kube, .volume and .container converter models (QM/ConvDelta.lean, QM/ConvArgs.lean, QM/Props/C02Delta.lean): the command is the concatenation of the blocks of segments, each a function of the assignment histories of its own keys; no key is read by two segments (decided over the tables regenerated from the source); hence two units that differ only in one key — added, re-assigned, reset, set in a drop-in — get commands that coincide argument for argument outside that key\'s block (C02_<type>_delta), and every documented key has a block (…Keys_complete). The arguments that the reference handlers collect while they thread the service through a fold are shown to be functions of the name table and the unit alone (handleNetworks_args, handleVolumes_args, mounts_args, handlePod_args, volumeOpts_args); the --sdnotify / -d arguments of a container depend on the [Service] Type= of the unit, which the two units are required to share. For the .build converter this clause is decided by the delta oracle on real conversions',
    'Spec.rows_* / Spec.lookupKinds (lean/QM/Spec/Keys.lean, spec/keys.json) are the frozen documented key -> option tables and lookup kinds, seeded from the pinned tree',
    'the table-driven rows (string / all-strings / boolean keys, health keys, PublishPort, ContainersConfModule) are proved generically; the whole-command shape is proved for all seven converter models (C02_<type>_shape: the Exec line is the rendering of an explicit vector with the key tables as contiguous blocks in table order, PodmanArgs after the key-derived options, positional arguments last; results of handlers that depend on other units are existentially quantified); for the "special" keys (Volume, Mount, Network, User/Group, UserNS…, Notify, AutoUpdate, …) the exact option groups are checked on real conversions by the delta oracle',
    'Mount= values that need CSV quoting are outside the model (answered out-of-model by the model driver; still covered by the oracle)',
]
LEVEL_TEXT = ('Proof (table rows, command shapes of all converters) + oracle (all keys): Lean theorems — every key → option table extracted from convert.rs equals the frozen '
              'documented table (decide over the finite tables, on every run); a table row reads only the assignment history of its own key (frame), '
              'emits `flag value` with the exact unquoted text / once per item in order / the on-off form, and adding a key inserts exactly its row\'s '
              'options at the row\'s position while every other row is unchanged (for all units, keys and values); for every converter model the '
              'generated Exec line is proved to be the rendering of an explicit argument vector (podman, modules, GlobalArgs, subcommand, the key '
              'tables as contiguous blocks in table order, name=value blocks, PodmanArgs after the key-derived options, positional arguments last), '
              'which by C01 is exactly what systemd splits it into (C02_string_option_reaches_podman end to end). "Adding the key changes nothing else": for six of the seven converter models (all but .build) the whole command is proved to be the concatenation of the blocks of segments that each read the histories of their own keys only, no key being read twice (decided over the regenerated tables), so two units that differ in one key get commands that coincide argument for argument outside the block of that key (C02_<type>_delta), and every documented key but the naming ones has a block (<type>Keys_complete). Special keys: on the real converter, the argument-vector delta between a base unit and the base unit plus the key is compared with '
              'the documented option group, for every documented key and a set of adversarial values.')
LEVEL_NOTE = 'Trusted: Lean kernel; extractor; frozen tables; correspondence of the converter models; the Python table of documented "special" keys used by the delta oracle.'
TECHNIQUE = 'Lean 4 proofs (emitter frame/add-key lemmas, table conformance, command shapes of all seven converters) + correspondence + argument-delta oracle on the real converters'

SPEC = json.load(open(os.path.join(core.VERIF, 'spec', 'keys.json')))
VALUES = ['x', 'a b', 'k=v', 'a:b', 'a,b', '%h/x', 'é', 'q"r', "it's", 'back\\slash', 'a=b=c', 'x y  z',
          # "value intact" also for what only the renderer can damage: non-ASCII white space, C1 controls, separators
          'a\u0085b', 'x\u00a0y', 'p\u2028q', 'c\u009bd', 'w\u3000z', 't\tu']

# documented option groups of the keys that are not plain table rows (value v is the effective text)
SPECIAL = {
    'container': {
        'ContainerName': lambda v: ('replace', '--name', v),
        'LogDriver': lambda v: ['--log-driver', v], 'SeccompProfile': lambda v: ['--security-opt', 'seccomp=' + v],
        'SecurityLabelType': lambda v: ['--security-opt', 'label=type:' + v], 'SecurityLabelFileType': lambda v: ['--security-opt', 'label=filetype:' + v],
        'SecurityLabelLevel': lambda v: ['--security-opt', 'label=level:' + v],
        'AutoUpdate': lambda v: ['--label', 'io.containers.autoupdate=' + v], 'CgroupsMode': lambda v: ('replace', '--cgroups', v),
        'User': lambda v: ['--user', v], 'Secret': 'words:--secret', 'Mask': 'wordsp:--security-opt:mask=', 'Unmask': 'wordsp:--security-opt:unmask=',
        'Sysctl': 'strv:--sysctl', 'LogOpt': 'strv:--log-opt', 'AddCapability': 'strvl:--cap-add', 'DropCapability': 'strvl:--cap-drop',
        'Environment': 'kv:--env', 'Label': 'kv:--label', 'Annotation': 'kv:--annotation', 'PodmanArgs': 'words', 'PublishPort': 'all:--publish',
        'AddDevice': 'devs:--device',
        'UserNS': lambda v: ['--userns', v], 'UIDMap': 'strv:--uidmap', 'GIDMap': 'strv:--gidmap', 'SubUIDMap': lambda v: ['--subuidname', v],
        'SubGIDMap': lambda v: ['--subgidname', v], 'GlobalArgs': 'words', 'EnvironmentFile': 'wordsabs:--env-file',
        'NoNewPrivileges': ('bool', ['--security-opt=no-new-privileges'], []), 'SecurityLabelDisable': ('bool', ['--security-opt', 'label=disable'], []),
        'SecurityLabelNested': ('bool', ['--security-opt', 'label=nested'], []), 'ReadOnly': ('bool', ['--read-only'], ['--read-only=false']),
        'VolatileTmp': ('bool', ['--tmpfs', '/tmp:rw,size=512M,mode=1777'], []),
    },
    'volume': {'Label': 'kv:--label', 'PodmanArgs': 'words', 'Driver': lambda v: ['--driver', v], 'GlobalArgs': 'words',
               'Copy': ('bool', ['--opt', 'copy'], ['--opt', 'nocopy']), 'Device': lambda v: ['--opt', 'device=' + v]},
    'network': {'Label': 'kv:--label', 'Options': 'kv:--opt', 'PodmanArgs': 'words', 'GlobalArgs': 'words', 'Subnet': 'all:--subnet'},
    'pod': {'PodmanArgs': 'words', 'PublishPort': 'all:--publish', 'GlobalArgs': 'words',
            'UserNS': lambda v: ['--userns', v], 'UIDMap': 'strv:--uidmap', 'GIDMap': 'strv:--gidmap', 'SubUIDMap': lambda v: ['--subuidname', v],
            'SubGIDMap': lambda v: ['--subgidname', v]},
    'kube': {'LogDriver': lambda v: ['--log-driver', v], 'PublishPort': 'all:--publish', 'PodmanArgs': 'words', 'GlobalArgs': 'words',
             'UserNS': lambda v: ['--userns', v], 'LogOpt': 'strv:--log-opt', 'ConfigMap': 'strvabs:--configmap',
             'ExitCodePropagation': lambda v: ['--service-exit-code-propagation=' + v]},
    'image': {'PodmanArgs': 'words', 'GlobalArgs': 'words'},
    'build': {'Label': 'kv:--label', 'Environment': 'kv:--env', 'Annotation': 'kv:--annotation', 'Secret': 'words:--secret', 'PodmanArgs': 'words',
              'GlobalArgs': 'words', 'Pull': lambda v: ['--pull=' + v]},
}
FN = {'container': 'from_container_unit', 'volume': 'from_volume_unit', 'network': 'from_network_unit', 'pod': 'from_pod_unit', 'kube': 'from_kube_unit',
      'image': 'from_image_unit', 'build': 'from_build_unit'}


# AddDevice=[-]host[:container[:permissions]] in every arity; a leading '-' means: only if the host path exists
DEVS = ['/dev/fuse', '/dev/a:/dev/b', '/dev/a:/dev/b:rwm', '/dev/a:rwm', '-/dev/null', '-/dev/null:/dev/b', '-/dev/null:/dev/b:rwm', '-/dev/null:rwm',
        '-/dev/nonexistent-xyz', '-/dev/nonexistent-xyz:/dev/b:rwm', '-/dev/null:/dev/null:rwm']


def dq(v):
    """a documented spelling of v for a single-valued key: wholly double-quoted"""
    return '"' + v.replace('\\', '\\\\').replace('"', '\\"') + '"'


def key_specs(ty):
    """[(key, kind, flag-or-fn)] for the unit type from the frozen tables + SPECIAL"""
    out = []
    for name, rows in SPEC['rows'].items():
        fn, var = name.split('.')
        if fn != FN[ty] and not (fn == 'handle_health' and ty == 'container') and not (fn == 'get_base_podman_command'):
            continue
        for k, f in rows:
            if fn == 'handle_health':
                out.append((k, 'str', '--health-' + f))
            elif fn == 'get_base_podman_command':
                out.append((k, 'allg', f))
            elif var == 'string_keys':
                out.append((k, 'str', f))
            elif var == 'bool_keys':
                out.append((k, 'bool', f))
            else:
                out.append((k, 'all', f))
    for k, v in SPECIAL[ty].items():
        out.append((k, 'special', v))
    return out


def argv(ctx, outs):
    """ExecStart argument vectors (via the specification splitter) of convert answers"""
    raws = []
    for a in outs:
        r = canon.parse_convert(a)[0]
        if r[0] != 'svc':
            raws.append(None)
            continue
        ex = [v for k, v in r[2].get('Service', []) if k == 'ExecStart']
        pre = [v for k, v in r[2].get('Service', []) if k == 'ExecStartPre' and ' pod create ' in v]
        raws.append(pre[-1] if pre and r[1].endswith('-pod.service') else (ex[-1] if ex else None))
    sp = ctx.model(['spec_split_exec\t' + hx(r) for r in raws if r is not None])
    it = iter(sp)
    res = []
    for r in raws:
        if r is None:
            res.append(None)
        else:
            b = next(it)
            res.append([unhx(t) for t in b[4:-1].split(' ') if t] if b.startswith('ok [') else None)
    return res


def delta(base, new):
    i = 0
    while i < len(base) and i < len(new) and base[i] == new[i]:
        i += 1
    j = 0
    while j < len(base) - i and j < len(new) - i and base[len(base) - 1 - j] == new[len(new) - 1 - j]:
        j += 1
    return i, base[i:len(base) - j], new[i:len(new) - j]


def corr_ops(ctx):
    rnd = ctx.rnd
    ops = []
    for _ in range(6000 if ctx.thorough else 1500):
        ty = rnd.choice(G.TYPES)
        ops.append(f'convert\t{rnd.choice("01")}\t0\t{hx("/q/" + G.file_name(rnd, ty))}\t{hx(G.unit(rnd, ctx.tables, ty, nkeys=12, near_miss=0.0))}')
    # combinations of the keys each handler function looks at
    for ty, text, fn in G.group_units(rnd, ctx.tables, core.REPO, reps=2 if ctx.thorough else 1):
        ops.append(f'convert\t{rnd.choice("01")}\t0\t{hx("/q/g." + ty)}\t{hx(text)}')
    # every documented key on its own with each value
    for ty in G.TYPES:
        base = '[' + G.SEC[ty] + ']\n' + ''.join(l + '\n' for l in G.BASE[ty])
        for k in SPEC['documented'][G.SUP[ty]]:
            for v in (G.VALS if ctx.thorough else rnd.sample(G.VALS, 24)):
                ops.append(f'convert\t0\t0\t{hx("/q/a." + ty)}\t{hx(base + k + "=" + v + chr(10))}')
    return ops


def project(op, out):
    return canon.canon_result(out)


def nontrivial(op, out):
    return out.startswith('ok svc')


def oracle(ctx):
    res = ctx.res
    rnd = ctx.rnd
    cases = []
    for ty in G.TYPES:
        base_lines = list(G.BASE[ty])
        for key, kind, spec in key_specs(ty):
            vals = VALUES if ctx.thorough else rnd.sample(VALUES, 5)
            for v in vals:
                # other independent keys around it
                extra = []
                if rnd.random() < 0.5:
                    extra = [rnd.choice(['PodmanArgs=--pa 1', 'GlobalArgs=--ga', 'Label=zz=1' if ty in ('container', 'volume', 'network', 'build') else 'PodmanArgs=--pb'])]
                bl = base_lines
                if ty == 'container' and key not in ('Image', 'Rootfs') and rnd.random() < 0.25:
                    bl = ['Rootfs=/var/lib/rootfs']   # the other object a container can be about
                if rnd.random() < 0.3:
                    # another key of the unit's tables assigned empty (a reset, as a drop-in would do): it adds nothing, and
                    # it takes nothing away from the keys beside it
                    others = [k2 for k2, kd2, _ in key_specs(ty) if kd2 in ('str', 'all', 'bool') and k2 != key and k2 + '=' not in ''.join(bl)]
                    if others:
                        extra = extra + [rnd.choice(others) + '=']
                if rnd.random() < 0.35:
                    # a second documented key WITH a value beside the key under test: any key of the unit's tables (independent of each
                    # other by construction), or — for the user-namespace options, which podman takes side by side — another one of them
                    tbl = [(k2, kd2) for k2, kd2, sp2 in key_specs(ty) if (kd2 in ('str', 'all', 'bool') or (kd2 == 'special' and isinstance(sp2, tuple)))
                           and k2 != key and k2 + '=' not in ''.join(bl + extra)]
                    # (the on/off keys written by hand are companions too, switched on and — explicitly — off: ReadOnly=no beside VolatileTmp=yes.
                    #  ReadOnly=yes is left out: a read-only container gets no tmpfs of its own for /tmp, the one documented interplay)
                    if key == 'VolatileTmp' and rnd.random() < 0.6 and 'ReadOnly=' not in ''.join(bl + extra):
                        extra = extra + ['ReadOnly=' + rnd.choice(['no', 'false', 'off', '0'])]
                        tbl = []
                    idmap = [('UserNS', 'keep-id'), ('UIDMap', '0:10000:10'), ('GIDMap', '0:20000:10'), ('SubUIDMap', 'subu'), ('SubGIDMap', 'subg')]
                    sup = ctx.tables['supported'][G.SUP[ty]]
                    if key in dict(idmap) and rnd.random() < 0.7 and [p for p in idmap if p[0] != key and p[0] in sup]:
                        k2, v2 = rnd.choice([p for p in idmap if p[0] != key and p[0] in sup])
                        extra = extra + [f'{k2}={v2}']
                    elif tbl:
                        k2, kd2 = rnd.choice(tbl)
                        onoff = kd2 == 'bool' or kd2 == 'special'
                        if onoff and {key, k2} == {'ReadOnly', 'VolatileTmp'}:
                            extra = extra + [k2 + '=false']
                        else:
                            extra = extra + [k2 + '=' + (rnd.choice(['true', 'false', 'no', 'yes']) if onoff else 'companion')]
                cases.append((ty, key, kind, spec, v, bl + extra))
    # directed: every hand-written on/off key of a container beside every other one switched explicitly off (what "off" adds is in the base)
    onoff_keys = [(k, kd, sp) for k, kd, sp in key_specs('container') if kd == 'special' and isinstance(sp, tuple)]
    for k, kd, sp in onoff_keys:
        for k2, _, _ in onoff_keys:
            if k2 != k:
                for off in (['no', 'false', 'off', '0'] if ctx.thorough or {k, k2} == {'ReadOnly', 'VolatileTmp'} else [rnd.choice(['no', 'false', 'off', '0'])]):
                    cases.append(('container', k, kd, sp, 'ON', list(G.BASE['container']) + [f'{k2}={off}']))
    base_ops, new_ops, metas = [], [], []
    for ty, key, kind, spec, v, lines in cases:
        sec = '[' + G.SEC[ty] + ']\n'
        if kind == 'bool':
            val = rnd.choice(['true', 'false', 'yes', 'no', '1', '0', 'on', 'off'])
            exp_v = val in ('true', 'yes', '1', 'on')
            line = f'{key}={val}'
        elif kind in ('str', 'all', 'allg') or (kind == 'special' and callable(spec)):
            if key in ('Pull', 'CgroupsMode', 'AutoUpdate') and False:
                pass
            line = f'{key}={dq(v)}'
            exp_v = v
        else:
            line = None
            exp_v = v
        if kind == 'special' and isinstance(spec, tuple):
            val = rnd.choice(['true', 'yes', '1', 'on']) if v == 'ON' else rnd.choice(['true', 'false', 'yes', 'no', '1', '0', 'on', 'off'])
            exp_v = val in ('true', 'yes', '1', 'on')
            line = f'{key}={val}'
        if kind == 'special' and not callable(spec) and not isinstance(spec, tuple):
            m = spec.split(':')
            if m[0] in ('words', 'wordsp', 'wordsabs'):
                words = [v, 'w2']
                line = key + '=' + ' '.join(dq(w) for w in words)
                exp_v = words
            elif m[0] in ('strv', 'strvl', 'strvabs'):
                import re as _re
                words = [w for w in [_re.sub(r'\s', '_', v).replace('\\', '_').replace('"', '_').replace("'", '_'), 'CAP_X']]
                line = key + '=' + ' '.join(words)
                exp_v = words
            elif m[0] == 'kv':
                vv = v.replace('"', '_').replace('\\', '_')
                line = f'{key}="N1={vv}" N2=2'
                if rnd.random() < 0.5:
                    # the same name assigned before with another value (same line or an earlier line): the last one counts
                    line = rnd.choice([f'{key}=N1=stale\n{line}', f'{key}=N1=stale "N1={vv}" N2=2', f'{key}=N2=stale N1=stale\n{line}'])
                exp_v = [f'N1={vv}', 'N2=2']
            elif m[0] == 'all':
                line = f'{key}={dq(v)}'
                exp_v = v
            elif m[0] == 'devs':
                # every form of the device specification in every run: three per case, stepping through the list
                dk = getattr(ctx, '_devk', 0)
                ctx._devk = dk + 3
                words = [DEVS[(dk + j) % len(DEVS)] for j in range(3)]
                line = key + '=' + ' '.join(words)
                exp_v = words
        # Exec for containers so that "image then Exec args last" is observable
        tail = ['Exec=run "" "the end"'] if ty == 'container' else []   # (an empty argument is an argument)
        base_text = sec + '\n'.join(lines + tail) + '\n'
        new_text = sec + '\n'.join(lines + [line] + tail) + '\n'
        # the unit's file name is an input of the converters too (templates and instances have other defaults): a key's option is
        # the same whatever the file is called
        stem = rnd.choice(['a', 'a', 'a', 'tpl@', 'tpl@inst', 'x.y', 'my app'])
        base_ops.append(f'convert\t0\t0\t{hx("/q/" + stem + "." + ty)}\t{hx(base_text)}')
        new_ops.append(f'convert\t0\t0\t{hx("/q/" + stem + "." + ty)}\t{hx(new_text)}')
        metas.append((ty, key, kind, spec, exp_v, new_text))
    # Mount=: the source of the mount types that name something on the host or another unit (bind, glob, volume, image) is resolved like a
    # Volume= source — a relative path against the unit's directory, spelled `source=` afterwards — every other type is passed on as written;
    # both spellings of the key (`source`, `src`), the fields in any order
    m_ops, m_meta = [], []
    for mt in ('bind', 'glob', 'volume', 'image', 'tmpfs', 'devpts', 'ramfs'):
        for sk in ('source', 'src'):
            for srcv, res_ in (('./conf/app', '/q/conf/app'), ('../up/x', '/up/x'), ('/abs/p', '/abs/p'), ('./conf/*.cfg', '/q/conf/*.cfg')):
                for order in (0, 1):
                    fields = [f'type={mt}', f'{sk}={srcv}', 'dst=/m'] if order == 0 else [f'{sk}={srcv}', 'dst=/m', f'type={mt}']
                    if mt in ('bind', 'glob', 'volume', 'image'):
                        want = ','.join([f'type={mt}'] + [f'source={res_}' if f.startswith(sk + '=') else f for f in fields if not f.startswith('type=')])
                    else:
                        want = ','.join(fields)
                    m_ops.append(f'convert\t0\t0\t{hx("/q/m.container")}\t{hx("[Container]" + chr(10) + "Image=localhost/i" + chr(10) + "Mount=" + ",".join(fields) + chr(10))}')
                    m_meta.append((','.join(fields), want))
    for (val, want), op, av in zip(m_meta, m_ops, argv(ctx, ctx.impl(m_ops))):
        res.oracle_evals += 1
        got = [av[i + 1] for i in range(len(av) - 1) if av[i] == '--mount'] if av else None
        if got != [want]:
            res.oracle_failures.append(dict(op=op, input=f'Mount={val}', impl_output=str(got), oracle_expectation=f'--mount {want}'))
    bo = ctx.impl(base_ops)
    no = ctx.impl(new_ops)
    bargs, nargs = argv(ctx, bo), argv(ctx, no)
    for (ty, key, kind, spec, exp_v, text), op, a, ba, na in zip(metas, new_ops, no, bargs, nargs):
        res.oracle_evals += 1
        if ba is None:
            continue
        if na is None:
            r = canon.parse_convert(a)[0]
            # a documented key with some value may legitimately be rejected for its *value* (enumerated keys); never silently dropped
            if r[0] == 'err' and r[1] in ('UnsupportedValueForKey', 'InvalidRemapUsers', 'InvalidSubnet', 'InvalidPortFormat', 'InvalidMountFormat', 'InvalidPod',
                                          'PodNotFound', 'InvalidNetworkOptions', 'InvalidSetWorkingDirectory', 'InvalidDeviceType', 'InvalidDeviceOptions'):
                continue
            res.oracle_failures.append(dict(op=op, input=text, impl_output=core.dec_line(a)[:500], oracle_expectation=f'{key} with a documented spelling converts'))
            continue
        pos, removed, added = delta(ba, na)
        want = None
        if kind in ('str', 'all', 'allg'):
            want = [spec, exp_v]
        elif kind == 'bool':
            want = [spec] if exp_v else [spec + '=false']
        elif isinstance(spec, tuple):
            want = spec[1] if exp_v else spec[2]
        elif callable(spec):
            w = spec(exp_v)
            if isinstance(w, tuple):   # replaces a default option value
                flag, val = w[1], w[2]
                idx = [i for i, x in enumerate(na) if x == flag]
                if not idx or na[idx[0] + 1] != val:
                    res.oracle_failures.append(dict(op=op, input=text, impl_output=str(na), oracle_expectation=f'{flag} {val!r}'))
                continue
            want = w
        else:
            m = spec.split(':')
            if m[0] == 'words':
                want = [x for w in exp_v for x in (([m[1]] if len(m) > 1 else []) + [w])]
            elif m[0] in ('wordsabs', 'strvabs'):
                # relative paths are resolved against the unit's directory (/q) and normalised; a leading specifier is left alone (C17)
                import posixpath, re as _re2
                def res_(w):
                    if _re2.match(r'%[^%/]($|/)', w):
                        return w
                    return posixpath.normpath(w if w.startswith('/') else '/q/' + w)
                want = [x for w in exp_v for x in [m[1], res_(w)]]
            elif m[0] == 'wordsp':
                want = [x for w in exp_v for x in [m[1], m[2] + w]]
            elif m[0] == 'strv':
                want = [x for w in exp_v for x in [m[1], w]]
            elif m[0] == 'strvl':
                want = [x for w in exp_v for x in [m[1], w.lower()]]
            elif m[0] == 'devs':
                want = []
                for w in exp_v:
                    if w.startswith('-'):
                        want += [m[1], w[1:]] if os.path.exists(w[1:].split(':')[0]) else []
                    else:
                        want += [m[1], w]
            elif m[0] == 'kv':
                import collections
                def vals(av):
                    return collections.Counter(av[i + 1] for i in range(len(av) - 1) if av[i] == m[1])
                got = vals(na) - vals(ba)
                rest_new = collections.Counter(na) - collections.Counter([m[1]] * len(exp_v) + list(exp_v))
                if sorted(got.elements()) != sorted(exp_v) or rest_new != collections.Counter(ba):
                    res.oracle_failures.append(dict(op=op, input=text, impl_output=f'argv {na} (base {ba})', oracle_expectation=f'{m[1]} once per name: {exp_v}, nothing else changed'))
                continue
            elif m[0] == 'all':
                want = [m[1], exp_v]
        ins = [i for i in range(len(ba) + 1) if ba[:i] + want + ba[i:] == na] if want is not None else []
        if ins:
            pos = ins[-1]
        if not ins:
            res.oracle_failures.append(dict(op=op, input=text, impl_output=f'delta at {pos}: -{removed} +{added}; argv {na}',
                                            oracle_expectation=f'adding {key} inserts exactly {want} and changes nothing else'))
            continue
        if not want:
            continue   # nothing is inserted (e.g. optional devices that do not exist): no position to speak of
        # position claims
        sub = {'container': 'run', 'volume': 'volume', 'network': 'network', 'pod': 'pod', 'kube': 'kube', 'image': 'image', 'build': 'build'}[ty]
        si = na.index(sub) if sub in na else -1
        fail = None
        if kind == 'allg' and not pos < si:
            fail = f'global option {want} must precede the subcommand {sub!r}'
        if '--ga' in na and si >= 0 and not na.index('--ga') < si:
            fail = 'GlobalArgs must precede the subcommand'
        if kind != 'allg' and key != 'PodmanArgs' and '--pa' in na and not pos < na.index('--pa'):
            fail = f'PodmanArgs must follow the key-derived options ({want} at {pos}, --pa at {na.index("--pa")})'
        if ty == 'container' and na[-3:] != ['run', '', 'the end']:
            fail = f'the Exec arguments must come last: {na[-3:]}'
        if ty == 'container' and 'localhost/img' in na and na.index('localhost/img') != len(na) - 4:
            fail = 'the image must directly precede the Exec arguments'
        if ty == 'container' and 'Rootfs=/var/lib/rootfs' in text and na[-5:-3] != ['--rootfs', '/var/lib/rootfs']:
            fail = f'--rootfs and its path must directly precede the Exec arguments: {na[-5:]}'
        if ty == 'container' and key != 'PodmanArgs' and '--pa' in na and not fail:
            obj = len(na) - (5 if 'Rootfs=/var/lib/rootfs' in text else 4)
            if na.index('--pa') + 2 != obj:
                fail = f'PodmanArgs must sit directly before the object (image or --rootfs) at {obj}: --pa at {na.index("--pa")}'
        if fail:
            res.oracle_failures.append(dict(op=op, input=text, impl_output=str(na), oracle_expectation=fail))
    # list keys whose items carry options of their own: every item is rendered from its own text, in order (nothing of one item reaches the next)
    mcases = []
    for ty in ('container', 'pod', 'kube', 'build'):
        for key, flag, pool in (('Network', '--network', ['front:ip=10.89.0.5', 'back', 'mid:alias=db,mac=92:d0:c6:0a:29:33', 'host', 'side']),
                                ('Volume', '-v', ['a:/x:ro', 'b:/y', '/host/p:/c:Z,U', 'named:/n']),
                                ('PublishPort', '--publish', ['8080:80', '9090:90/udp', '127.0.0.1:53:53', '7000'])):
            if key not in ctx.tables['supported'][G.SUP[ty]]:
                continue
            for _ in range(6 if ctx.thorough else 2):
                items = [rnd.choice(pool) for _ in range(rnd.randint(2, 4))]
                mcases.append((ty, key, flag, items))
    mops = [f'convert\t0\t0\t{hx("/q/m." + ty)}\t{hx("[" + G.SEC[ty] + "]" + chr(10) + "".join(b + chr(10) for b in G.BASE[ty]) + "".join(f"{key}={it}" + chr(10) for it in items))}' for ty, key, flag, items in mcases]
    for (ty, key, flag, items), op, av in zip(mcases, mops, argv(ctx, ctx.impl(mops))):
        if av is None:
            continue
        res.oracle_evals += 1
        got = [av[i + 1] for i in range(len(av) - 1) if av[i] == flag]
        if got != items:
            res.oracle_failures.append(dict(op=op, input=dict(unit_type=ty, assignments=[f'{key}={it}' for it in items]), impl_output=str(got),
                                            oracle_expectation=f'{flag} once per item, in order, each with exactly its own text: {items}'))
    # keys whose option names an object that another unit of the run creates: the option is the same in whichever order the two files are
    # found (the real binary, the two units in two search directories, both orders)
    import e2e, re as _re
    xcases = []
    for ty in ('container', 'build', 'pod', 'kube'):
        for line, want in (('Volume=cache.volume:/c:Z', ['-v', 'systemd-cache:/c:Z']), ('Network=net.network', ['--network', 'systemd-net'])):
            if line.split('=')[0] not in ctx.tables['supported'][G.SUP[ty]]:
                continue
            for first in ('referrer', 'target'):
                xcases.append((ty, line, want, first))

    def run_x(c):
        ty, line, want, first = c
        ref = '[' + G.SEC[ty] + ']\n' + ''.join(b + '\n' for b in G.BASE[ty]) + line + '\n'
        tgt_name = 'cache.volume' if 'volume' in line else 'net.network'
        tgt = '[Volume]\n' if 'volume' in line else '[Network]\n'
        a, b = ('d0', 'd1') if first == 'referrer' else ('d1', 'd0')
        r = e2e.run_case({f'{a}/app.{ty}': ref, f'{b}/{tgt_name}': tgt}, dirs=('d0', 'd1'), dry_run=True)
        return r['printed'], r['exit'], r['stderr']
    for (ty, line, want, first), (printed, rc, se) in zip(xcases, e2e.pmap(run_x, xcases)):
        res.oracle_evals += 1
        texts = [v for k, v in printed.items() if _re.search(r'^SourcePath=.*app\.' + ty + '$', v, _re.M)]
        cmd = _re.findall(r'^(?:ExecStartPre|ExecStart)=(.*(?: pod create | run | build | kube play ).*)$', texts[0], _re.M) if texts else []
        b = ctx.model(['spec_split_exec\t' + hx(cmd[0])])[0] if cmd else 'none'
        av = [unhx(t) for t in b[4:-1].split(' ') if t] if b.startswith('ok [') else []
        if not any(av[i:i + 2] == want for i in range(len(av))):
            res.oracle_failures.append(dict(op='e2e two units', input=dict(referrer=f'app.{ty}: {line}', found_first=first), impl_output=dict(exit=rc, argv=av, errors=e2e.error_lines(se)[:3]),
                                            oracle_expectation=f'{line} adds {want}, in whichever order the two files are discovered'))
    res.samples.append(dict(kind='oracle-case', unit=metas[0][5], key=metas[0][1]))
    res.notes.append(f'delta oracle: {len(metas)} (type, key, value) cases over {sum(len(key_specs(t)) for t in G.TYPES)} documented keys with a stated option group')
    ctx.log(f'oracle: {res.oracle_evals} evaluations, {len(res.oracle_failures)} failures')
