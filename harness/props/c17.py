"""C17 — relative paths resolve against the unit file's directory and are normalised"""
import itertools, posixpath
import core, gen, gen_units as G, canon
from core import hx, unhx

LEAN_MODULE = 'QM.Props.C17Sites'
THEOREMS = ['Pth.C17_clean_eq_spec', 'Pth.C17_clean_normal', 'Pth.C17_resolve', 'Pth.C17_absolute', 'Pth.C17_no_cwd', 'Pth.C17_specifier', 'Pth.C17_specifier_kept', 'Cv.C17_storage_source_call_site', 'Cv.C17_storage_source_other', 'Cv.C17_yaml_call_site', 'Cv.C17_yaml_specifier_kept', 'Cv.C17_absFromUnit_specifier', 'Cv.C17_absFromUnit_eq', 'Cv.C17_url_prefix', 'Cv.C17_build_custom_anchored']
ASSUMPTIONS = [
    'Pth.components models std::path::Path::components on Unix (third-party behaviour, modelled from its documentation); Pth.cleaned / absoluteFrom / startsWithSpecifier are hand-written models of path_buf_ext.rs; tied by exhaustive correspondence over component lists with all separator decorations',
    'Pth.Spec.clean states Go filepath.Clean semantics for rooted paths (what upstream Quadlet uses)',
    'call sites: Volume/Mount sources, Yaml and the custom working directory of a .build are theorems over the converter models (QM/Props/C17Sites.lean: resolved against the unit directory; a relative non-URL custom directory is always anchored, and a URL begins with one of four prefixes — D21); ConfigMap, EnvironmentFile and the derived WorkingDirectory of yaml/file are checked on real conversions against an independent reference (posixpath.normpath); the URL-or-path decisions are also in the correspondence',
]
LEVEL_TEXT = ('Proof: Lean theorems — for every absolute path the model of cleaned() equals the reference lexical normaliser (C17_clean_eq_spec, by a '
              'stack invariant over the component fold), its result is rooted and consists of plain names only (no ".", "..", empty part; ".." never '
              'climbs above "/"), absolute_from resolves relative paths against the given absolute directory, leaves specifier paths unresolved, the '
              'result is absolute and independent of the generator\'s working directory (C17_resolve, C17_absolute, C17_no_cwd). Model tied by '
              'correspondence exhaustive over component lists up to length 5 (quick: 4) × leading/trailing/repeated separators; call sites checked '
              'on the real converters.')
LEVEL_NOTE = 'Trusted: Lean kernel; model of std::path components; correspondence (exhaustive up to the bound); posixpath.normpath as independent reference for the call-site oracle.'
TECHNIQUE = 'Lean 4 proof (path normaliser = reference normaliser, resolution rules) + exhaustive correspondence + call-site oracle'

PC = ['a', 'b', '.', '..', '', '%h', '%%', '%abc', 'c.d', '%S', '%1', '%_', '%', '%é']


def paths(ctx):
    n = 5 if ctx.thorough else 4
    out = []
    for k in range(0, n + 1):
        for comps in itertools.product(PC[:7] if k >= 4 else PC, repeat=k):
            for lead in ['', '/', '//']:
                for trail in ['', '/']:
                    out.append(lead + '/'.join(comps) + trail)
    return sorted(set(out))


def corr_ops(ctx):
    rnd = ctx.rnd
    ps = paths(ctx)
    ctx._c17 = ps
    ops = []
    for p in ps:
        ops.append('clean\t' + hx(p))
        ops.append('specifier\t' + hx(p))
        ops.append('components\t' + hx(p))
    roots = ['/q', '/q/sub', '/', '/a/../b', '/q/']
    for p in ps:
        if rnd.random() < (1.0 if ctx.thorough else 0.3):
            ops.append('absolute_from\t' + hx(rnd.choice(roots)) + '\t' + hx(p))
            ops.append('absolute_from_unit\t' + hx(rnd.choice(['/q/x.container', '/q/sub/y.kube', '/z.build'])) + '\t' + hx(p))
    # the call sites that decide between "a path" and "something else" (a URL, a specifier): model and code on the same units
    WD = ['httpd/ctx', 'http', 'https', 'http://h/x', 'https://h', 'https://', 'git://h/r', 'git:/x', 'github.com/u/r', 'github.com/', 'x/github.com/u', 'src/https://h/x', './m/git://h',
          'a/b', '.', '..', '../', '/abs', '%h/x', 'unit', 'yaml', 'file', 'File', '', 'ftp://h/x', 'HTTP://h/x', 'http://a\\nb']
    for _ in range(600 if ctx.thorough else 150):
        v, f = rnd.choice(WD), rnd.choice(WD + ['/f', 'Containerfile'])
        if rnd.random() < 0.6:
            text = f'[Build]\nImageTag=t\nFile={f}\n' + (f'SetWorkingDirectory={v}\n' if rnd.random() < 0.8 else '')
            ops.append(f'convert\t0\t0\t{hx(rnd.choice(["/q/u.build", "/q/sub dir/u.build"]))}\t{hx(text)}')
        else:
            text = f'[Kube]\nYaml={rnd.choice(["/k.yaml", "k.yaml", "https://h/k.yaml", "httpd/k.yaml"])}\nSetWorkingDirectory={v}\n'
            ops.append(f'convert\t0\t0\t/q/u.kube'.replace('/q/u.kube', hx('/q/u.kube')) + f'\t{hx(text)}')
    return ops


def project(op, out):
    return canon.canon_result(out) if op.startswith('convert') else out


def ref_clean_abs(p):
    r = posixpath.normpath(p)
    return '/' if r.startswith('//') and set(r) == {'/'} else ('/' + r.lstrip('/') if r.startswith('//') else r)


def is_spec(p):
    first = [c for c in p.split('/') if c != ''][:1] if not p.startswith('/') else ['/']
    # leading "." component counts as a component for a relative path
    if not p.startswith('/') and p.split('/')[0] == '':
        pass
    comps = p.split('/')
    fc = '/' if p.startswith('/') else next((c for c in comps if c != ''), '')
    if not p.startswith('/') and comps and comps[0] == '.':
        fc = '.'
    return len(p.encode()) > 1 and len(fc.encode()) == 2 and p.startswith('%') and not p.startswith('%%')   # lengths in bytes


def oracle(ctx):
    res = ctx.res
    rnd = ctx.rnd
    ps = getattr(ctx, '_c17', None) or paths(ctx)
    # absolute paths: normalised as the reference does; relative: resolved against the unit directory
    dirs = ['/q', '/q/sub', '/', '/etc/containers/systemd']
    cases = []
    for p in ps:
        d = rnd.choice(dirs)
        cases.append((d, p))
    ops = ['absolute_from\t' + hx(d) + '\t' + hx(p) for d, p in cases]
    io = ctx.impl(ops)
    for (d, p), op, a in zip(cases, ops, io):
        res.oracle_evals += 1
        if not a.startswith('ok x'):
            res.oracle_failures.append(dict(op=op, input=dict(dir=d, path=p), impl_output=a, oracle_expectation='a path'))
            continue
        got = unhx(a[3:])
        if is_spec(p):
            continue   # specifier paths are not resolved (and what cleaned() does to them is outside the statement)
        want = ref_clean_abs(p) if p.startswith('/') else ref_clean_abs(d + '/' + p)
        if got != want:
            res.oracle_failures.append(dict(op=op, input=dict(dir=d, path=p), impl_output=got, oracle_expectation=f'{want!r} (absolute, no ".", "..", repeated separators)'))
    # specifier recognition
    so = ctx.impl(['specifier\t' + hx(p) for p in ps])
    for p, a in zip(ps, so):
        res.oracle_evals += 1
        if a != ('ok true' if is_spec(p) else 'ok false'):
            res.oracle_failures.append(dict(op='specifier\t' + hx(p), input=p, impl_output=a, oracle_expectation=f'specifier={is_spec(p)}'))
    # call sites on the real converters
    rels = ['./x', 'x/y', '../up', './a/../b//c/', 'a/./b', '%h/x', '%S/app/x.yaml', '%E/x', '%T/../x', '%1/x', '%%/x', '%hh/x', '/abs/./p/..', 'plain', '.', '..', '.cache/app', '..data/x', '.hidden', './', '../', './/x', '...']
    cases = []
    for _ in range(300 if ctx.thorough else 80):
        # the directory the unit was found in is taken as it was spelled (QUADLET_UNIT_DIRS and the XDG directories are used verbatim):
        # repeated separators, '.', '..' in it must not survive in what is derived from it
        unitdir = rnd.choice(['/q', '/q/sub dir', '/etc/containers/systemd/users/1000', '/q//sub', '/q/./sub', '/q/x/../sub', '/q/sub/.', '/q/sub//', '//q/sub', '/q/a/b/../../sub'])
        r = rnd.choice(rels)
        kind = rnd.choice(['yaml', 'configmap', 'envfile', 'volume', 'mount', 'wd-yaml', 'wd-file', 'wd-custom', 'wd-custom'])
        if kind == 'wd-custom':
            # a custom working directory: any relative path — also one whose later components look like something else (a URL scheme, a
            # specifier, a git host) — is resolved against the unit directory
            r = rnd.choice([x for x in rels if not x.startswith(('/', '%'))] + ['src-cache/https://git.example.org/app', './m/git://host/x', 'a/http://b', 'vendor/github.com/x/y',
                                                                              'x/%h/y', 'httpd/ctx', 'git/repo', 'a/../https:/b'])
        if kind in ('envfile', 'configmap') and rnd.random() < 0.4 and r and not any(c in r for c in ' \t"\'\\'):
            kind += '2'
        cases.append((unitdir, r, kind))
    ops = []
    for unitdir, r, kind in cases:
        if kind == 'yaml':
            ops.append(('kube', f'[Kube]\nYaml={r}\n'))
        elif kind == 'configmap':
            ops.append(('kube', f'[Kube]\nYaml=/k.yaml\nConfigMap={r}\n'))
        elif kind == 'envfile':
            ops.append(('container', f'[Container]\nImage=i\nEnvironmentFile={r}\n'))
        elif kind in ('envfile2', 'configmap2'):
            # several paths on one line (both keys are lists), and one more on a line of its own: each one is resolved
            key = 'EnvironmentFile' if kind == 'envfile2' else 'ConfigMap'
            ops.append(('container', f'[Container]\nImage=i\n{key}={r} second/../two.env\n{key}=./third.env\n') if kind == 'envfile2'
                       else ('kube', f'[Kube]\nYaml=/k.yaml\n{key}={r} second/../two.env\n{key}=./third.env\n'))
        elif kind == 'volume':
            ops.append(('container', f'[Container]\nImage=i\nVolume={r}:/c\n'))
        elif kind == 'mount':
            # every mount type whose source is a path of the host (bind, glob) or goes through the same resolver (volume, image)
            mt = rnd.choice(['bind', 'bind', 'glob', 'glob', 'volume', 'image'])
            ops.append(('container', f'[Container]\nImage=i\nMount=type={mt},{rnd.choice(["source", "src"])}={r},target=/t\n'))
        elif kind == 'wd-custom':
            ops.append(rnd.choice([('kube', f'[Kube]\nYaml=/k.yaml\nSetWorkingDirectory={r}\n'), ('build', f'[Build]\nImageTag=t\nFile=/f\nSetWorkingDirectory={r}\n')]))
        elif kind == 'wd-yaml':
            ops.append(('kube', f'[Kube]\nYaml={r}\nSetWorkingDirectory=yaml\n'))
        else:
            ops.append(('build', f'[Build]\nImageTag=t\nFile={r}\nSetWorkingDirectory=file\n'))
    # the base of resolution is the unit file's directory whatever else the unit says: a third of the units (not those whose working
    # directory is the thing derived) also choose a [Service] WorkingDirectory= of their own
    ops = [(ty, text + (rnd.choice(['[Service]\nWorkingDirectory=/srv/app\n', '[Service]\nWorkingDirectory=%h/app\n', '[Service]\nWorkingDirectory=rel/dir\n'])
                        if not c[2].startswith('wd-') and rnd.random() < 0.33 else '')) for c, (ty, text) in zip(cases, ops)]
    lines = [f'convert\t0\t0\t{hx(c[0] + "/u." + ty)}\t{hx(text)}' for c, (ty, text) in zip(cases, ops)]
    io = ctx.impl(lines)
    for (unitdir, r, kind), line, a in zip(cases, lines, io):
        res.oracle_evals += 1
        rr = canon.parse_convert(a)[0]
        if rr[0] != 'svc':
            continue
        execs = [v for k, v in rr[2].get('Service', []) if k == 'ExecStart']
        words = [unhx(t) for t in ctx.model(['spec_split_exec\t' + hx(execs[-1])])[0][4:-1].split(' ') if t] if execs else []
        resolved = ref_clean_abs(r) if r.startswith('/') else ref_clean_abs(unitdir + '/' + r)
        spec = is_spec(r)
        fail = None
        if kind == 'yaml' and not spec and words[-1] != resolved:
            fail = f'Yaml path {words[-1]!r} != {resolved!r}'
        elif kind == 'configmap' and not spec and ('--configmap' not in words or words[words.index('--configmap') + 1] != resolved):
            fail = f'--configmap != {resolved!r}: {words}'
        elif kind == 'envfile' and not spec and ('--env-file' not in words or words[words.index('--env-file') + 1] != resolved):
            fail = f'--env-file != {resolved!r}: {words}'
        elif kind in ('envfile2', 'configmap2') and not spec:
            flag = '--env-file' if kind == 'envfile2' else '--configmap'
            got = [words[i + 1] for i in range(len(words) - 1) if words[i] == flag]
            wantl = [resolved, ref_clean_abs(unitdir + '/two.env'), ref_clean_abs(unitdir + '/third.env')]
            if got != wantl:
                fail = f'{flag} values {got} != {wantl}'
        elif kind == 'volume' and r.startswith('.') and ('-v' not in words or words[words.index('-v') + 1] != resolved + ':/c'):
            fail = f'-v != {resolved + ":/c"!r}: {words}'
        elif kind == 'mount' and r.startswith('.') and ('--mount' not in words or f'source={resolved}' not in words[words.index('--mount') + 1].split(',')):
            fail = f'--mount source != {resolved!r}: {words}'
        elif kind in ('wd-yaml', 'wd-file', 'wd-custom') and not spec and not (kind == 'wd-custom' and r in ('yaml', 'file', 'unit')):
            wd = [v for k, v in rr[2].get('Service', []) if k == 'WorkingDirectory']
            want = (posixpath.dirname(resolved) or '/') if kind != 'wd-custom' else resolved
            if kind == 'wd-custom' and unhx(line.split('\t')[3]).endswith('.build'):
                # a .build keeps the custom value as the context argument of `podman build` and anchors it by running in the unit directory
                want = ref_clean_abs(unitdir)
            if not wd or wd[-1] != want.replace(' ', ' '):
                # the raw value is the quoted form; compare unquoted
                uq = ctx.impl(['unquote\t' + hx(wd[-1])])[0] if wd else ''
                if not wd or uq != 'ok ' + hx(want):
                    fail = f'WorkingDirectory {wd} != {want!r}'
        if spec and r.startswith('%') and kind in ('yaml', 'configmap', 'envfile', 'wd-yaml', 'wd-file'):
            # "paths that start with a systemd specifier are not resolved": wherever the path (or the directory derived from it) lands, it
            # still begins with the specifier — the unit directory is not put in front of it
            first = r.split('/')[0]
            exact = r
            if kind in ('wd-yaml', 'wd-file'):
                wd = [v for k, v in rr[2].get('Service', []) if k == 'WorkingDirectory']
                uq = ctx.impl(['unquote\t' + hx(wd[-1])])[0] if wd else ''
                got = unhx(uq[3:]) if uq.startswith('ok ') else None
                if '/' in r.rstrip('/') and (got is None or got.split('/')[0] != first):
                    fail = f'WorkingDirectory {wd} must begin with the specifier {first!r} of the path it is derived from (not resolved)'
            else:
                flag = {'configmap': '--configmap', 'envfile': '--env-file'}.get(kind)
                got = words[-1] if kind == 'yaml' else (words[words.index(flag) + 1] if flag in words else None)
                if got is None or got.split('/')[0] != first:
                    fail = f'{kind} path {got!r} must begin with the specifier {first!r} (not resolved)'
                elif got != exact and not any(c in r for c in ' \t"\'\\'):
                    fail = f'{kind} path {got!r}: a specifier path is passed on as it was written, {exact!r}'
        if fail:
            res.oracle_failures.append(dict(op=line, input=dict(unit_dir=unitdir, path=r, key=kind), impl_output=core.dec_line(a)[:500], oracle_expectation=fail))
    # several path-valued entries in one unit — also the *same* source more than once: every occurrence is resolved
    from props import c02
    multi, mops = [], []
    dot = [x for x in rels if x.startswith('.')]
    for _ in range(160 if ctx.thorough else 50):
        unitdir = rnd.choice(['/q', '/q/sub dir'])
        ty = rnd.choice(['container', 'container', 'pod', 'build'])
        srcs = [rnd.choice(dot) for _ in range(rnd.randint(2, 4))]
        if rnd.random() < 0.7:
            srcs[rnd.randrange(1, len(srcs))] = srcs[0]          # a repeated source
        L = {'container': ['[Container]', 'Image=i'], 'pod': ['[Pod]'], 'build': ['[Build]', 'ImageTag=t', 'File=/f']}[ty]
        L += [f'Volume={r}:/c{i}' + rnd.choice(['', ':ro']) for i, r in enumerate(srcs)]
        multi.append((unitdir, ty, srcs, '\n'.join(L) + '\n'))
        mops.append(f'convert\t0\t0\t{hx(unitdir + "/u." + ty)}\t{hx(multi[-1][3])}')
    mav = c02.argv(ctx, ctx.impl(mops))
    for (unitdir, ty, srcs, text), op, av in zip(multi, mops, mav):
        res.oracle_evals += 1
        if av is None:
            continue
        got = [av[i + 1].split(':')[0] for i in range(len(av) - 1) if av[i] == '-v']
        want = [ref_clean_abs(unitdir + '/' + r) for r in srcs]
        if got != want:
            res.oracle_failures.append(dict(op=op, input=dict(unit_dir=unitdir, unit=text), impl_output=str(av)[:500],
                                            oracle_expectation=f'every Volume= source is resolved against the unit directory, each time it occurs: -v sources {want}, got {got}'))
    # real files: the unit file, or a directory of its path, is a symbolic link whose target lies elsewhere — resolution is
    # lexical against the directory in the unit's *own* path (where it was found), whatever the file system looks like
    import e2e, os, re as _re, shutil
    for variant in ('file-link-rel', 'file-link-abs', 'dir-link', 'searchdir-link'):
        for r in rnd.sample([x for x in rels if not x.startswith(('/', '%')) and x.strip('./') != ''], 3):
            res.oracle_evals += 1
            base = e2e.fresh_dir()
            real = os.path.join(base, 'repo', 'quadlets')
            units = os.path.join(base, 'units')
            os.makedirs(real)
            os.makedirs(units)
            text = f'[Container]\nImage=i\nEnvironmentFile={r}\n'
            with open(os.path.join(real, 'web.container'), 'w') as f:
                f.write(text)
            search, unitdir = units, units
            if variant == 'file-link-rel':
                os.symlink('../repo/quadlets/web.container', os.path.join(units, 'web.container'))
            elif variant == 'file-link-abs':
                os.symlink(os.path.join(real, 'web.container'), os.path.join(units, 'web.container'))
            elif variant == 'dir-link':
                os.symlink(real, os.path.join(units, 'sub'))
                unitdir = os.path.join(units, 'sub')
            else:
                # a search directory that is itself a link is resolved once, before discovery (that is where the units are
                # then found, and what SourcePath= says)
                os.symlink(real, os.path.join(base, 'linked'))
                search, unitdir = os.path.join(base, 'linked'), real
            rc, so, se = e2e.run_binary(['--dry-run', '--no-kmsg-log', os.path.join(base, 'out')], search, cwd='/')
            shutil.rmtree(base, ignore_errors=True)
            m = _re.search(r'--env-file (?:"([^"]*)"|(\S+))', so)
            got = (m.group(1) or m.group(2)) if m else None
            want = ref_clean_abs(unitdir + '/' + r)
            if got != want:
                res.oracle_failures.append(dict(op='e2e', input=dict(variant=variant, value=r, unit_found_in=unitdir), impl_output=dict(exit=rc, env_file=got, stderr=se[-300:]),
                                                oracle_expectation=f'EnvironmentFile={r} resolves against the directory the unit was found in: {want}'))
    res.samples.append(dict(kind='oracle-case', dir=cases[0][0], path=cases[0][1], key=cases[0][2]))
    ctx.log(f'oracle: {res.oracle_evals} evaluations, {len(res.oracle_failures)} failures')
