"""C12 — writes stay inside the output directory; enablement links reach the service"""
import os, shutil, posixpath
import core, gen, gen_units as G, canon, e2e
from core import hx, unhx

LEAN_MODULE = 'QM.Props.C12Run'
THEOREMS = ['Inst.C12_dirlink_parts', 'Inst.C12_dirlink_inside', 'Inst.C12_alias_inside', 'Inst.C12_alias_string', 'Inst.C12_resolves', 'Inst.C12_target_parts',
            'Inst.C12_template_without_default', 'Inst.C12_slash_names_ignored', 'Inst.C12_no_default_instance_with_slash',
            'Inst.C12_blocked_link_no_effect', 'Inst.C12_failed_link_does_not_stop_the_rest', 'Inst.C12_links_stay', 'Inst.C12_links_stay_all', 'Inst.C12_made_subset_plan',
            'Inst.C12_top_level_never_blocked', 'Inst.C12_plan_inside', 'Cv.C12_run_links_inside', 'Cv.C12_run_links_are_plans', 'Cv.C12_dry_run_no_links']
ASSUMPTIONS = [
    'Cv.process (QM/Run.lean) is the model of the whole run; its effects on the output directory are compared with real dry and normal runs on generated trees (written files, links with their targets, errors, exit status)',
    'Inst.linkPaths / Inst.target model enable_service_file (main.rs); tied to the code by running the real function through the hook on a scratch output directory and comparing the links it created (path and target) with the model\'s plan',
    'containment is lexical over an output directory that holds no symlinks leading elsewhere; the file-system effects themselves (create_dir_all, remove_file, symlink) are runtime behaviour and are checked on real runs with a full before/after snapshot of a sandbox that contains the output directory and decoy files beside it',
]
LEVEL_TEXT = ('Proof (link planning, whole plan, whole run) + end-to-end check (effects): C12_plan_inside — whatever [Install] holds, every link path planned for a service '
              '(each Alias, WantedBy, RequiredBy) is relative and has no ".." part; C12_run_links_inside — so is every link made by a run of the model of process(), '
              'for every tree, mode and answer of the file system, and a dry run makes none (C12_dry_run_no_links). In detail, over the model of enable_service_file — a WantedBy/RequiredBy link has '
              'exactly the two parts <unit>.wants|.requires / <service> and no ".." part; an Alias accepted by the test on the cleaned *string* is relative and every part of it, as the kernel resolves the path, is a plain '
              'name — no "..", "." or empty part (C12_alias_string: components → clean stack → rendering → parts, for every string); names with a '
              'path separator contribute nothing; a template without (usable) DefaultInstance gets no WantedBy/RequiredBy links; the relative target '
              '"../"×depth + service resolves to OUT/<service> for every output directory and nesting depth (induction over the parts). Carrying the '
              'plan out (Inst.carryOut: links one after the other on an abstract output directory): a link that cannot be made changes nothing, '
              'so the links after it are made as if it had not been asked for; what was made stays; only links of the plan are made; a link '
              'directly in the output directory is never blocked. The effects '
              'on the file system are partial with respect to the runtime: they are checked on real runs with decoy files and realpath of every link.')
LEVEL_NOTE = 'Trusted: Lean kernel; correspondence of the link plan; e2e snapshots for the actual file-system effects (symlinks already present inside OUT are outside the property\'s quantifier).'
TECHNIQUE = 'Lean 4 proofs about the link plan (containment, depth arithmetic) + correspondence with the real function + sandbox snapshots with decoys'

WORDS = ['default.target', 'multi-user.target', 'a.service', 'x y.target', '../up.target', '/abs.target', 'sub/dir.target', '..', '.', '""', 'é.target', 'foo.service',
         'sub/dir/foo.service', './rel.service', '../escape.service', '../../escape2.service', '/abs/alias.service', 'a/../b.service', 'a/../../c.service', '/', 'x/', 'a//b.service', '%i.service', 'a\\x20b.service',
         # one word each: only blank, tab, newline and carriage return separate words
         'night\u00a0shift.target', 'a\u3000b.target', 'x\u0085y.service', 'v\x0bt.target', 'f\x0cg.target', 'x\u00a0/etc', 'p\u2003q.service']
SVC_FILES = ['a.service', 'web-1.service', 'tpl@.service', 'tpl@inst.service', 'x.y.service', 'my svc.service', 'a-pod.service', '@.service', 'é.service',
             'tpl@.service', 't.p@.service', 'tpl@a@b.service', 'tpl@v1.2.service', 'a.b@.service']
DEFINST = [None, 'i1', 'inst x', '../../../../esc', 'a/b', '', '%i', 'v1.2', 'a.b.c', '.hid', 'x.service', 'dot.', 'a@b', '@', 'é']


def correspond_run(ctx):
    import runcorr
    runcorr.correspond_process(ctx, 240 if ctx.thorough else 60)


def gen_install(rnd, svc):
    lines = []
    for key in ['WantedBy', 'RequiredBy', 'Alias']:
        for _ in range(rnd.randint(0, 2)):
            ws = [rnd.choice(WORDS) for _ in range(rnd.randint(0, 3))]
            if key == 'Alias' and rnd.random() < 0.2:
                ws.append(rnd.choice([svc, 'd/../' + svc]))
            if key == 'Alias' and rnd.random() < 0.3:
                # links that cannot be made (the parent is the service file or another link; the name is a directory made for
                # another link) among links that can: each is skipped on its own, the others are still created
                ws.insert(rnd.randint(0, len(ws)), rnd.choice([svc + '/extra.service', 'foo.service/nested.service', 'default.target.wants', 'sub/dir', 'sub',
                                                              'multi-user.target.requires', 'a.service/b/c.service']))
            lines.append(f'{key}={" ".join(ws)}')
    d = rnd.choice(DEFINST)
    if '@.' in svc and rnd.random() < 0.5:
        # a template without instance: its aliases are links like any others, whether or not there is a DefaultInstance
        lines.append('Alias=' + rnd.choice(['front@.service', 'nested/dir/www@.service', 'plain-alias.service', 'x.service y.service']))
        if rnd.random() < 0.6:
            d = None
    if d is not None:
        lines.append(f'DefaultInstance={d}')
    rnd.shuffle(lines)
    return '[Install]\n' + '\n'.join(lines) + '\n'


def links_of(root):
    res = {}
    for dp, dns, fns in os.walk(root):
        for n in dns + fns:
            p = os.path.join(dp, n)
            if os.path.islink(p):
                res[os.path.relpath(p, root)] = os.readlink(p)
    return res


def correspond(ctx):
    """model plan vs. the links the real enable_service_file creates in a scratch output directory"""
    res = ctx.res
    rnd = ctx.rnd
    n = 2500 if ctx.thorough else 500
    cases = [(rnd.choice(SVC_FILES),) for _ in range(n)]
    cases = [(svc, gen_install(rnd, svc)) for (svc,) in cases]
    ctx._c12 = cases
    base = e2e.fresh_dir()
    ops = []
    for i, (svc, text) in enumerate(cases):
        out = os.path.join(base, str(i))
        os.makedirs(out)
        open(os.path.join(out, svc), 'w').write('[Service]\n')
        ops.append(f'enable\t{hx(out)}\t{hx(os.path.join(out, svc))}\t{hx(text)}')
    io = ctx.impl(ops)
    mo = ctx.model([f'plan_links\t{hx(svc)}\t{hx(text)}' for svc, text in cases])
    made_model = ctx.model([f'made_links\t{hx(svc)}\t{hx(text)}' for svc, text in cases])
    for i, ((svc, text), a, b, mm) in enumerate(zip(cases, io, mo, made_model)):
        res.corr_ops += 1
        res.corr_by_op['enable'] = res.corr_by_op.get('enable', 0) + 1
        out = os.path.join(base, str(i))
        got = links_of(out)
        want = {}
        if b.startswith('ok ['):
            t = [unhx(x) for x in b[4:-1].split(' ') if x]
            for j in range(0, len(t), 2):
                want[posixpath.normpath(t[j])] = t[j + 1]
        if got:
            res.corr_nontrivial.add(ops[i])
        # a link whose directory cannot be created (a file is in the way) is skipped by the code with a warning: compare the rest
        # a link that cannot be made (a non-directory on its parent path, a directory under its own name) is skipped by the code
        # with a warning: the plan is carried out in order on the abstract directory (creatable) and compared with what exists
        # (carried out by the model: Inst.carryOut, about which C12_failed_link_does_not_stop_the_rest, C12_links_stay, … are proved;
        # the Python `creatable` of the oracle is a second, independent statement of the same — the two must agree as well)
        made = {posixpath.normpath(unhx(x)) for x in mm[4:-1].split(' ') if x} if mm.startswith('ok [') else None
        if made is not None and made != creatable(svc, list(want)):
            res.corr_disagreements.append(dict(op=ops[i], op_readable=f'made_links {svc!r} {text!r}', impl=f'python creatable: {sorted(creatable(svc, list(want)))}', model=f'{sorted(made)}'))
        if made is None:
            made = creatable(svc, list(want))
        if a != 'ok' or {k: v for k, v in want.items() if k in made} != got:
            if len(res.corr_disagreements) < 20:
                res.corr_disagreements.append(dict(op=ops[i], op_readable=f'enable {svc!r} {text!r}', impl=f'{a} links={got}', model=f'{want}'))
    shutil.rmtree(base, ignore_errors=True)
    res.samples.append(dict(kind='correspondence-op', service=cases[0][0], install=cases[0][1]))
    ctx.log(f'correspondence (enable vs plan_links): {len(cases)} cases, {len(res.corr_disagreements)} disagreements')
    correspond_run(ctx)


def blocked(out, rel):
    """is some proper prefix of rel occupied by a non-directory (so create_dir_all fails)?"""
    parts = rel.split('/')
    for i in range(1, len(parts)):
        p = os.path.join(out, *parts[:i])
        if os.path.lexists(p) and (os.path.islink(p) or not os.path.isdir(p)):
            return True
    return False


def creatable(svc, planned):
    """the links of the plan that exist after it was carried out in order on an empty output directory that holds the service
    file: a link whose parent path runs through a non-directory (the service file, an earlier link) cannot be made, nor can one
    whose name is a directory made for an earlier link; every other link is made, whatever happened to the ones before it"""
    dirs, links = set(), set()
    for k in planned:
        parts = k.split('/')
        prefixes = ['/'.join(parts[:i]) for i in range(1, len(parts))]
        if any(p in links or p == svc for p in prefixes):
            continue
        dirs.update(prefixes)
        if k in dirs:
            continue
        links.add(k)
    return links


def spec_links(svc, text):
    """independent statement of what [Install] asks for (words are plain here: no quoting in the generator's words except "")"""
    wanted, required, alias, definst = [], [], [], None
    for line in text.split('\n'):
        if '=' not in line:
            continue
        k, v = line.split('=', 1)
        words = [] if v == '' else [w if w != '""' else '' for w in v.split(' ') if w != '']
        if v == '':
            if k == 'WantedBy':
                wanted = []
            elif k == 'RequiredBy':
                required = []
            elif k == 'Alias':
                alias = []
        if k == 'WantedBy':
            wanted += words
        elif k == 'RequiredBy':
            required += words
        elif k == 'Alias':
            alias += words
        elif k == 'DefaultInstance':
            definst = v
    stem = svc[:-len('.service')]
    name = svc
    if '@' in stem and stem.split('@', 1)[0] != '' and stem.split('@', 1)[1] == '':
        name = None if definst is None or '/' in definst else f'{stem.split("@", 1)[0]}@{definst}.service'
    links = {}
    for a in alias:
        if a.startswith('/') or a == '':
            continue
        n = posixpath.normpath(a)
        if n == '.' or n.startswith('..') or n == svc:
            continue
        links[n] = None
    if name is not None:
        for w in wanted:
            if '/' not in w:
                links[f'{w}.wants/{name}'] = None
        for w in required:
            if '/' not in w:
                links[f'{w}.requires/{name}'] = None
    return links


def oracle(ctx):
    core.io_inventory_obligation(ctx.res, ('write',))
    res = ctx.res
    rnd = ctx.rnd
    cases = (getattr(ctx, '_c12', None) or [(svc, gen_install(rnd, svc)) for svc in [rnd.choice(SVC_FILES) for _ in range(500)]])[: (1200 if ctx.thorough else 300)]

    def service_name_of(svc, inst):
        # the name of the service is user input too (ServiceName=): a value that looks like a path out of the output directory names
        # the file by its last component only
        if '@' in svc:
            return None   # (templates keep their own naming rules; the path-like names are tried on plain units)
        return [None, None, None, '../escaped-' + svc[:-8], 'sub/dir/inner-' + svc[:-8], 'SANDBOX/decoy-abs-' + svc[:-8]][sum(map(ord, inst + svc)) % 6]

    def run(case):
        svc, inst = case
        stem = svc[:-len('.service')]
        sn = service_name_of(svc, inst)
        if sn:
            svc = os.path.basename(sn) + '.service'
        files = {'src/' + stem + '.container': '[Container]\nImage=localhost/i\n' + (f'ServiceName={sn}\n' if sn else '') + inst,
                 'decoy.txt': 'decoy', 'abs.target': 'x', 'escape.service': 'keep me', 'sub/decoy2': 'y'}
        base = e2e.fresh_dir()
        os.makedirs(os.path.join(base, 'src'))
        files = {k: v.replace('SANDBOX', base) for k, v in files.items()}
        e2e.write_tree(base, files)
        out = os.path.join(base, 'sand', 'out')
        os.makedirs(os.path.dirname(out))
        # the state of the output directory is part of the input: in a third of the runs the places of the links to be made are
        # already taken by links of an earlier generation — dangling ones (their service is gone), one pointing at itself, live
        # ones pointing elsewhere inside the output directory; "creates, replaces" means each of them is replaced
        stale_kind = [None, None, 'dangling', 'loop', 'live', 'blocked'][sum(map(ord, svc + inst)) % 6]
        if stale_kind == 'blocked':
            # the service file cannot be written (a directory sits in its place): no service is generated — and so no link for it either
            os.makedirs(os.path.join(out, svc))
        elif stale_kind:
            os.makedirs(out)
            with open(os.path.join(out, 'older.service'), 'w') as f:
                f.write('[Service]\n')
            for l in sorted(creatable(svc, list(spec_links(svc, inst)))):
                p = os.path.join(out, l)
                os.makedirs(os.path.dirname(p), exist_ok=True)
                if not os.path.lexists(p):
                    os.symlink({'dangling': '../' * l.count('/') + 'gone.service', 'loop': os.path.basename(l), 'live': '../' * l.count('/') + 'older.service'}[stale_kind], p)
        before = e2e.snapshot(base)
        rc, so, se = e2e.run_binary(['--no-kmsg-log', out], os.path.join(base, 'src'))
        after = e2e.snapshot(base)
        links = links_of(out) if os.path.isdir(out) else {}
        resolved = {}
        for l in links:
            resolved[l] = os.path.realpath(os.path.join(out, l))
        shutil.rmtree(base, ignore_errors=True)
        return base, out, rc, se, before, after, links, resolved, stale_kind == 'blocked'
    for (svc, inst), (base, out, rc, se, before, after, links, resolved, blocked_) in zip(cases, e2e.pmap(run, cases)):
        res.oracle_evals += 1
        fails = []
        sn = service_name_of(svc, inst)
        if sn:
            svc = os.path.basename(sn) + '.service'
        relout = os.path.relpath(out, base)
        outside = {k: (before.get(k), after.get(k)) for k in set(before) | set(after)
                   if before.get(k) != after.get(k) and not (k == relout or k.startswith(relout + '/') or k == 'sand')}
        if outside:
            fails.append(f'touched outside the output directory: {outside}')
        if rc not in (0, 1):
            fails.append(f'exit status {rc}: {se[-300:]}')
        if blocked_:
            if links or rc != 1:
                fails.append(f'the service file {svc} could not be written (a directory is in its place): exit status 1 and no links at all, got exit {rc} and {sorted(links)}')
            for f in fails:
                res.oracle_failures.append(dict(op='e2e', input=dict(service=svc, install=inst, fault='a directory at the service path'), impl_output=dict(links=links, exit=rc, stderr=se[-500:]), oracle_expectation=f))
            continue
        if svc not in [k[len(relout) + 1:] for k, v in after.items() if k.startswith(relout + '/') and v[0] == 'f']:
            fails.append(f'the service file {svc} is missing or not a regular file after the run')
        want = spec_links(svc, inst)
        got = {k: v for k, v in links.items()}
        want_eff = creatable(svc, list(want))
        if set(got) != want_eff:
            fails.append(f'links created {sorted(got)} differ from the links [Install] asks for {sorted(want_eff)}')
        for l, tgt in got.items():
            if tgt.startswith('/'):
                fails.append(f'link {l} has an absolute target {tgt}')
            if resolved[l] != os.path.join(os.path.realpath(os.path.dirname(out)), 'out', svc) and resolved[l] != os.path.join(out, svc):
                fails.append(f'link {l} -> {tgt} resolves to {resolved[l]}, not to the service file')
        for f in fails:
            res.oracle_failures.append(dict(op='e2e', input=dict(service=svc, install=inst), impl_output=dict(links=links, exit=rc, stderr=se[-500:]), oracle_expectation=f))
    res.samples.append(dict(kind='e2e-case', service=cases[0][0], install=cases[0][1]))
    ctx.log(f'oracle: {res.oracle_evals} evaluations, {len(res.oracle_failures)} failures')
