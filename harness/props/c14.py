"""C14 — root never reads per-user directories; a user reads only its own and shared ones"""
import os, re, shutil, subprocess, tempfile
import core, gen, e2e
from core import hx, unhx

LEAN_MODULE = 'QM.Props.C14'
THEOREMS = ['Srch.C14_root', 'Srch.C14_user_sound', 'Srch.C14_user_complete', 'Srch.C14_user_not_other_uid', 'Srch.C14_pinned_counterexample']
ASSUMPTIONS = [
    'Srch.* models the two filter closures and the directory lists of UnitSearchDirs over an abstract list of directories; walkdir is third-party and modelled as "all directories at or below the root"; trees without symlinks below the admin directory',
    'tie: (a) the real walk with the real filter closures is run through the hook on a staged tree with the users path substituted and compared with the model; (b) the whole binary is run in a private mount namespace (unshare -m, tmpfs over /etc, /run and /usr/share, the staged trees bind-mounted at the real paths) as uid 0 and, via setpriv, as other uids, and the set of directories it read (origin markers) is compared with the model and with the specification; when unshare/setpriv are not permitted only (a) runs — recorded in the evidence',
]
LEVEL_TEXT = ('Proof + real runs in a mount namespace: Lean theorems over the model of the search-directory filters — the system generator reads nothing at or '
              'below users/ (C14_root); a user generator reads, below the admin tree, only users/ itself, sub-trees whose first component below users/ is '
              'not numeric, and its own users/<uid> sub-tree (C14_user_sound), all of them (C14_user_complete), and nothing at or below another UID\'s '
              'directory (C14_user_not_other_uid) — for every tree and every uid. Partial with respect to the runtime (directory walking, uid lookup): '
              'tied by running the real filters on staged trees and the real binary as several uids in a private mount namespace.')
LEVEL_NOTE = 'Trusted: Lean kernel; the abstraction of walkdir; the staged-tree and namespace runs for the tie. Symlinks below the admin directory are outside the model.'
TECHNIQUE = 'Lean 4 proofs (soundness and completeness of the directory filters) + real filter correspondence + runs of the binary as several uids in a mount namespace'

NAMES = ['1001', '2002', 'shared', '0', '007', 'a1', '3003x', 'sub', 'deep',
         # numbers by spelling, whatever their magnitude: beyond u32 / u64, a timestamp, leading zeros; and near-numbers
         '4294967296', '20240131093000', '18446744073709551616', '0001001', '١٢٣', ' 7', '+7', '-1', '1e3', '0x10']
ADMIN = '/etc/containers/systemd'


def gen_tree(rnd):
    """relative directories below the admin directory"""
    dirs = {''}
    # (a fifth of the administrator's trees have no users/ at all — the usual state of a machine)
    p_users = 0.8 if rnd.random() < 0.8 else 0.0
    for _ in range(rnd.randint(2, 9)):
        depth = rnd.randint(1, 4)
        parts = []
        if rnd.random() < p_users:
            parts.append('users')
        for _ in range(depth):
            parts.append(rnd.choice(NAMES))
        for i in range(1, len(parts) + 1):
            dirs.add('/'.join(parts[:i]))
    return sorted(dirs)


def may_read_user(uid, rel):
    parts = rel.split('/') if rel else []
    if parts[:1] != ['users']:
        return False
    if len(parts) == 1:
        return True
    first = parts[1]
    # a number = a non-empty string of ASCII decimal digits (what a UID directory is called), of any magnitude
    numeric = first != '' and all(c in '0123456789' for c in first)
    return (not numeric) or first == str(uid)


def correspond(ctx):
    """(a) the real walk + real filters on a staged tree vs the model"""
    res = ctx.res
    rnd = ctx.rnd
    n = 600 if ctx.thorough else 150
    base = e2e.fresh_dir()
    ops, mops, metas = [], [], []
    for i in range(n):
        tree = gen_tree(rnd)
        root = os.path.join(base, str(i), 'adm')
        for d in tree:
            os.makedirs(os.path.join(root, d), exist_ok=True)
        uid = rnd.choice(['1001', '2002', '0', '7'])
        users = os.path.join(root, 'users')
        # the three walks of get_rootless_dirs / get_root_dirs that touch the admin tree
        ops.append(f'walk\t{hx(users)}\t{hx(users)}\t1\tnonnumeric')
        ops.append(f'walk\t{hx(os.path.join(users, uid))}\t{hx(users)}\t1\tuser')
        ops.append(f'walk\t{hx(root)}\t{hx(users)}\t0\tuser')
        absdirs = [ADMIN + ('/' + d if d else '') for d in tree]
        mops.append('search\tuser\t' + hx(uid) + ''.join('\t' + hx(d) for d in absdirs))
        mops.append('search\troot\t' + hx(uid) + ''.join('\t' + hx(d) for d in absdirs))
        metas.append((tree, uid, root))
    io = ctx.impl(ops)
    mo = ctx.model(mops)

    def paths(ans, root):
        return sorted(ADMIN + unhx(t)[len(root):] for t in ans[4:-1].split(' ') if t) if ans.startswith('ok [') else ans
    for i, (tree, uid, root) in enumerate(metas):
        res.corr_ops += 1
        res.corr_by_op['walk'] = res.corr_by_op.get('walk', 0) + 1
        impl_user = sorted(set(paths(io[3 * i], root) + paths(io[3 * i + 1], root) + ([ADMIN + '/users'])))
        impl_root = paths(io[3 * i + 2], root)
        mu = sorted(set(unhx(t) for t in mo[2 * i][4:-1].split(' ') if t)) if mo[2 * i].startswith('ok [') else mo[2 * i]
        mr = sorted(unhx(t) for t in mo[2 * i + 1][4:-1].split(' ') if t) if mo[2 * i + 1].startswith('ok [') else mo[2 * i + 1]
        # the model lists users/ unconditionally (the code pushes it at the end even when it does not exist)
        if len(tree) > 2:
            res.corr_nontrivial.add(str((tree, uid)))
        if impl_user != mu or impl_root != mr:
            if len(res.corr_disagreements) < 10:
                res.corr_disagreements.append(dict(op='walk', op_readable=dict(tree=tree, uid=uid), impl=dict(user=impl_user, root=impl_root), model=dict(user=mu, root=mr)))
    shutil.rmtree(base, ignore_errors=True)
    res.samples.append(dict(kind='correspondence-tree', tree=metas[0][0], uid=metas[0][1]))
    ctx.log(f'correspondence (real walk + filters vs model): {n} trees, {len(res.corr_disagreements)} disagreements')


def ns_available():
    try:
        p = subprocess.run(['unshare', '-m', 'sh', '-c', 'mount -t tmpfs tmpfs /etc && setpriv --reuid=1001 --regid=1001 --clear-groups true'], capture_output=True, timeout=20)
        return p.returncode == 0
    except Exception:
        return False


def run_ns(stage, uid, user=None, euid=None, by_name=False, no_out=False, xdg_runtime=None, unit_dirs=None):
    """run the real binary in a private mount namespace with the staged trees at the real paths; returns the set of ORIGIN markers"""
    out = os.path.join(stage, 'out')
    if user is None:
        user = uid != 0
    inner = (f'mount -t tmpfs tmpfs /etc && mount -t tmpfs tmpfs /run && mount -t tmpfs tmpfs /usr/share && '
             f'mkdir -p /etc/containers /run/containers/systemd /usr/share/containers/systemd && '
             + (f'mkdir -p /etc/containers/systemd && mount --bind {stage}/adm /etc/containers/systemd && ' if not os.path.exists(os.path.join(stage, 'admlink')) else
                # the administrator's directory itself is a symbolic link (absolute, or a chain) to a directory elsewhere
                f'mkdir -p /etc/qv-adm && mount --bind {stage}/adm /etc/qv-adm && ' + open(os.path.join(stage, 'admlink')).read().strip() + ' && ')
             + f'mount --bind {stage}/run /run/containers/systemd && '
             f'mount --bind {stage}/distro /usr/share/containers/systemd && '
             + (f'mkdir -p /etc/qv-users && mount --bind {stage}/usersreal /etc/qv-users && ' if os.path.isdir(os.path.join(stage, 'usersreal')) else '') +
             # (what decides the mode is the command line; variables systemd sets for its generators — SYSTEMD_SCOPE — must not turn a user
             # generator into a system one)
             f'env -u QUADLET_UNIT_DIRS ' + ('-u XDG_RUNTIME_DIR ' if xdg_runtime == 'unset' else '') + f'HOME={stage}/home XDG_CONFIG_HOME={stage}/home/.config '
             # (the variable that replaces the search path, set but empty or holding only separators: whatever that means, it opens no directory that is closed otherwise)
             + (f"QUADLET_UNIT_DIRS='{unit_dirs}' " if unit_dirs is not None else '')
             # (a user generator started by hand, from cron or in a container has no usable XDG_RUNTIME_DIR: unset, empty, or not absolute)
             + {None: f'XDG_RUNTIME_DIR={stage}/xdgrun ', 'unset': '', 'empty': 'XDG_RUNTIME_DIR= ', 'relative': 'XDG_RUNTIME_DIR=run/containers '}[xdg_runtime]
             + ((f'SYSTEMD_SCOPE={"system" if sum(map(ord, stage)) % 3 else "user"} ' if user and sum(map(ord, stage)) % 2 else ''))
             + (f'setpriv --reuid={uid} --regid={uid} --clear-groups ' if uid != 0 and euid is None else '')
             # real and effective uid differ (a set-uid helper): the invoking — real — user's directory is the one to read
             + (f'setpriv --ruid={uid} --euid={euid} --regid={uid} --clear-groups ' if euid is not None else '')
             # the mode can also be chosen by the name the generator is started under (systemd starts …/user-generators/…), and a
             # dry run needs no output directory
             + (f'{stage}/quadlet-rs ' + ('--user ' if user else '') if not by_name else f'{stage}/podman-user-generator ')
             + '--dry-run --no-kmsg-log' + ('' if no_out else f' {out}'))
    p = subprocess.run(['unshare', '-m', 'sh', '-c', inner], capture_output=True, timeout=60)
    so = p.stdout.decode('utf-8', 'replace')
    # (DROPIN markers come from drop-in directories staged where the generator at hand must not look at all)
    return p.returncode, set(re.findall(r'^Environment=ORIGIN=(.*)$', so, re.M)) | {'DROPIN:' + x for x in re.findall(r'^Environment=DROPIN=(.*)$', so, re.M)}, p.stderr.decode('utf-8', 'replace')


def oracle(ctx):
    core.io_inventory_obligation(ctx.res, ('read', 'metadata'))
    res = ctx.res
    rnd = ctx.rnd
    if not ns_available():
        res.notes.append('unshare -m / setpriv not permitted here: the whole-binary runs as several uids were skipped; only the staged-tree filter correspondence ran')
        # still evaluate the specification on the real filters' answers (staged trees)
        res.oracle_evals += 0
        ctx.log('oracle: mount namespace not available')
        return
    n = 120 if ctx.thorough else 30
    res.notes.append('whole-binary runs in a private mount namespace (unshare -m + setpriv) were performed')
    cases = []
    for i in range(n):
        # staged below /tmp with open permissions and its own copy of the binary: the other uids must be able to traverse
        # to the trees and to execute the generator wherever /verif lives; removed right after the run
        stage = tempfile.mkdtemp(prefix='qverif-c14-', dir='/tmp')
        os.chmod(stage, 0o755)
        shutil.copy(core.BIN, os.path.join(stage, 'quadlet-rs'))
        os.symlink('quadlet-rs', os.path.join(stage, 'podman-user-generator'))
        tree = gen_tree(rnd)
        marks = {}

        def put(rel_root, d, label):
            p = os.path.join(stage, rel_root, d)
            os.makedirs(p, exist_ok=True)
            tag = (label + '/' + d).rstrip('/')
            name = 'm' + str(len(marks)) + '.container'
            with open(os.path.join(p, name), 'w') as f:
                f.write(f'[Container]\nImage=localhost/i\nEnvironment=ORIGIN={tag}\n')
            marks[tag] = (label, d)
            if label == 'adm' and rnd.random() < 0.5 and any(x.split('/')[0] == 'users' for x in tree):
                # a drop-in directory for this unit in a place that is not among the directories its generator searches: for a unit below
                # users/ the administrator's top directory (or another user's), for a system unit somewhere below users/
                inside = d == 'users' or d.startswith('users/')
                where = rnd.choice(['', 'sysonly', 'users/424242']) if inside else rnd.choice(['users', 'users/1001', 'users/shared'])
                dd = os.path.join(stage, 'adm', where, name + '.d')
                os.makedirs(dd, exist_ok=True)
                with open(os.path.join(dd, 'zz-marker.conf'), 'w') as f:
                    f.write(f'[Container]\nEnvironment=DROPIN={where or "top"}-for-{tag}\n')
        for d in tree:
            put('adm', d, 'adm')
        for d in ['', 'sub']:
            put('distro', d, 'distro')
            put('run', d, 'run')
        # the system-wide directories may have a users/ of their own (with numbered sub-directories): nothing of it is for a user generator
        for d in rnd.sample(['users', 'users/1001', 'users/2002', 'users/7', 'users/shared'], rnd.randint(0, 3)):
            lab = rnd.choice(['distro', 'run'])
            put(lab, d, lab)
            put('home/.config/containers/systemd', d, 'xdg')
            put('xdgrun/containers/systemd', d, 'xdgrun')
        if rnd.random() < 0.35 and os.path.isdir(os.path.join(stage, 'adm', 'users')):
            # users/ itself is a symbolic link to a directory at another depth (deeper or shallower than the link)
            deep = rnd.choice(['x/y/z', ''])
            os.makedirs(os.path.join(stage, 'usersreal', deep), exist_ok=True)
            shutil.move(os.path.join(stage, 'adm', 'users'), os.path.join(stage, 'usersreal', deep, 'users'))
            if rnd.random() < 0.5:
                os.symlink(os.path.join('/etc/qv-users', deep, 'users'), os.path.join(stage, 'adm', 'users'))
                tree = tree + ['<users is a symlink to /etc/qv-users/' + deep + '/users>']
            else:
                # a chain of links: users -> hop -> the real directory (one readlink step does not reach a canonical path)
                os.symlink(os.path.join('/etc/qv-users', deep, 'users'), os.path.join(stage, 'usersreal', 'hop'))
                os.symlink('/etc/qv-users/hop', os.path.join(stage, 'adm', 'users'))
                tree = tree + ['<users -> /etc/qv-users/hop -> /etc/qv-users/' + deep + '/users>']
        elif rnd.random() < 0.2:
            with open(os.path.join(stage, 'admlink'), 'w') as f:
                f.write(rnd.choice(['ln -s /etc/qv-adm /etc/containers/systemd',
                                    'ln -s /etc/qv-hop /etc/containers/systemd && ln -s /etc/qv-adm /etc/qv-hop',
                                    'ln -s ../qv-adm /etc/containers/systemd']))
            tree = tree + ['</etc/containers/systemd is a symbolic link: ' + open(os.path.join(stage, 'admlink')).read() + '>']
        subprocess.run(['chmod', '-R', 'a+rX', stage])
        cases.append((stage, tree, marks))

    def run(case):
        stage, tree, marks = case
        uid = rnd.choice([1001, 2002, 7])
        # the mode (--user) and the invoking uid are separate dimensions: uid 0 runs a user generator too (user@0.service)
        other = rnd.choice([u for u in (1001, 2002, 7, 1000) if u != uid])
        no_out = rnd.random() < 0.6
        how = rnd.choice(['unset', 'empty', 'relative'])
        ud = rnd.choice(['', ':', '::'])
        return (uid, run_ns(stage, 0, False), run_ns(stage, uid, True), run_ns(stage, 0, True), (other, run_ns(stage, uid, True, euid=other)),
                (no_out, run_ns(stage, uid, True, by_name=True, no_out=no_out)), (how, run_ns(stage, uid, True, xdg_runtime=how)), (ud, run_ns(stage, 0, False, unit_dirs=ud), run_ns(stage, uid, True, unit_dirs=ud)))
    for (stage, tree, marks), (uid, r0, ru, ru0, (other, rue), (no_out, run_name), (how, run_noxdg), (ud, r0e, rue_)) in zip(cases, e2e.pmap(run, cases, workers=8)):
        res.oracle_evals += 1
        fails = []
        want_root = {t for t, (lab, d) in marks.items() if lab in ('distro', 'run') or (lab == 'adm' and not (d == 'users' or d.startswith('users/')))}
        want_user = {t for t, (lab, d) in marks.items() if lab in ('xdg', 'xdgrun') or (lab == 'adm' and may_read_user(uid, d))}
        # every staged unit is valid, so nothing fails — also where a directory the generator searches does not exist (a tree without users/:
        # D24, every user generator exited 1 there)
        for what, r in (('system generator', r0), (f'user generator of uid {uid}', ru), ('user generator of uid 0', ru0), ('user generator with another effective uid', rue),
                        ('generator started as podman-user-generator', run_name), (f'user generator with XDG_RUNTIME_DIR {how}', run_noxdg)):
            if r[0] != 0:
                fails.append(f'{what}: exit status {r[0]} although no file failed to load or convert: {r[2][-300:]}')
        if r0[1] != want_root:
            fails.append(f'the system generator read {sorted(r0[1])}, permitted and expected {sorted(want_root)}')
        if ru[1] != want_user:
            fails.append(f'the user generator (uid {uid}) read {sorted(ru[1])}, permitted and expected {sorted(want_user)}')
        want_user0 = {t for t, (lab, d) in marks.items() if lab in ('xdg', 'xdgrun') or (lab == 'adm' and may_read_user(0, d))}
        if ru0[0] not in (0, 1) or ru0[1] != want_user0:
            fails.append(f'the user generator invoked by uid 0 (exit {ru0[0]}) read {sorted(ru0[1])}, permitted and expected {sorted(want_user0)}')
        if rue[0] not in (0, 1) or rue[1] != want_user:
            fails.append(f'the user generator invoked by uid {uid} with effective uid {other} (exit {rue[0]}) read {sorted(rue[1])}, permitted and expected {sorted(want_user)} {rue[2][-200:]}')
        if run_name[0] not in (0, 1) or run_name[1] != want_user:
            fails.append(f'the generator started as podman-user-generator by uid {uid} (--dry-run, {"no output directory" if no_out else "with output directory"}; exit {run_name[0]}) read {sorted(run_name[1])}, permitted and expected {sorted(want_user)} {run_name[2][-200:]}')
        if r0e[0] not in (0, 1) or not r0e[1] <= want_root:
            fails.append(f'the system generator with QUADLET_UNIT_DIRS={ud!r} (exit {r0e[0]}) read {sorted(r0e[1] - want_root)} which it must never read')
        if rue_[0] not in (0, 1) or not rue_[1] <= want_user:
            fails.append(f'the user generator of uid {uid} with QUADLET_UNIT_DIRS={ud!r} (exit {rue_[0]}) read {sorted(rue_[1] - want_user)} which it must never read')
        # without a usable XDG_RUNTIME_DIR the user has no runtime directory of its own — the system's /run/containers/systemd is not a stand-in
        want_noxdg = {t for t in want_user if marks[t][0] != 'xdgrun'}
        if run_noxdg[0] not in (0, 1) or run_noxdg[1] != want_noxdg:
            fails.append(f'the user generator of uid {uid} with XDG_RUNTIME_DIR {how} (exit {run_noxdg[0]}) read {sorted(run_noxdg[1])}, permitted and expected {sorted(want_noxdg)} {run_noxdg[2][-200:]}')
        for f in fails:
            res.oracle_failures.append(dict(op='namespace-run', input=dict(tree=tree, uid=uid), impl_output=dict(root=sorted(r0[1]), user=sorted(ru[1])), oracle_expectation=f))
        shutil.rmtree(stage, ignore_errors=True)
    res.samples.append(dict(kind='namespace-run', tree=cases[0][1]))
    ctx.log(f'oracle: {res.oracle_evals} namespace runs, {len(res.oracle_failures)} failures')
