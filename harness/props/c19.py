"""C19 — --dry-run writes nothing and prints exactly what a real run would write"""
import os, re
import core, gen, gen_units as G, canon, e2e
from core import hx, unhx

LEAN_MODULE = 'QM.Props.C19Run'
THEOREMS = ['Parse.C19_serialisers', 'Cv.C19_dry_run_touches_nothing', 'Cv.C19_dry_run_ignores_the_world', 'Cv.C19_prints_what_a_run_writes',
            'Cv.C19_same_errors', 'Cv.C19_same_exit', 'Cv.C19_errors_modulo_io', 'Cv.C19_paired', 'Cv.run_services', 'Cv.C19_dry_run_leaves_outdir_empty']
ASSUMPTIONS = [
    'Parse.printUnit / Parse.writeChunks model to_string / write_to (two separately written serialisers); tied to the code by the unit-script correspondence (to_string and write_to of the same unit after random mutation scripts)',
    'Cv.process (QM/Run.lean) models the whole of process(): loading, drop-ins, the early return, creation of the output directory, the conversion loop and per unit the --dry-run branch or generate_service_file + enable_service_file, as a list of effects and a list of errors; the answers of the file system are a parameter (World). It is tied to the code by running the binary with --dry-run and normally on the same generated trees (with a directory or /dev/full in the place of a service file, or a file in the place of the output directory) and comparing exit status, errors with their paths, printed texts, written files and the links that exist afterwards',
    'known finding KF-C19-1: an Alias= that names the service file of another unit of the same run (two units claiming one name in the output directory) — that unit\'s text is written through the link, or its file is replaced by the link; such runs are excluded from the file-by-file comparison and the model reports them as `clash`',
    'std::fs, the standard streams and the process exit are runtime: that a print is only a print and that the file system does what the model says is observed on real runs (before/after snapshots), not proved',
]
LEVEL_TEXT = ('Proof over the model of the whole run + correspondence with real runs in both modes: C19_serialisers (write_to emits exactly the text of '
              'to_string, induction over sections); over Cv.process, for every tree, output path and answer of the file system: with --dry-run every '
              'effect is a print (C19_dry_run_touches_nothing) and the file system is not even asked (C19_dry_run_ignores_the_world); unit for unit and in '
              'the same order the dry run prints under the same path exactly the text a normal run writes after the generated-by line '
              '(C19_prints_what_a_run_writes), with the same errors and exit status (C19_same_errors, C19_same_exit); when writes fail the normal run adds '
              'I/O errors only (C19_errors_modulo_io). Partial with respect to the runtime: std::fs and the streams are observed on paired real runs with '
              'before/after snapshots.')
LEVEL_NOTE = 'Trusted: Lean kernel; unit-script correspondence for the serialisers; the e2e runs for everything the model cannot exhibit (file-system effects, exit status).'
TECHNIQUE = 'Lean 4 proof over a model of the whole run (dry run = prints only; prints = what a run writes; same errors and status) + correspondence of that model with real dry and normal runs + paired real runs with file-system snapshots'


def corr_ops(ctx):
    import props.c15 as c15
    rnd = ctx.rnd
    return [c15.mutation_script(rnd) for _ in range(6000 if ctx.thorough else 1200)]


def correspond(ctx):
    import runcorr
    runcorr.correspond_process(ctx, 400 if ctx.thorough else 100)


def nontrivial(op, out):
    return out.startswith('ok') and out.count('x') > 8


def gen_tree(ctx):
    rnd = ctx.rnd
    files = {}
    if rnd.random() < 0.65:
        fs = G.unit_set(rnd)
    else:
        fs = {}
        for _ in range(rnd.randint(1, 4)):
            ty = rnd.choice(G.TYPES)
            fs[G.file_name(rnd, ty)] = G.unit(rnd, ctx.tables, ty, near_miss=0.05)
    # size dimension: lines and files around the buffer sizes on the way out (1 KiB line buffer of stdout, 8 KiB BufWriter,
    # 64 KiB pipe): the last rendered line of a container is its ExecStart
    if rnd.random() < 0.5:
        target = rnd.choice([900, 1000, 1024, 1100, 2000, 8100, 8200, 9000, 66000])
        arg = 'PodmanArgs=--label=' + 'x' * 30 + '\n'
        big = '[Container]\nImage=localhost/big\n' + arg * max(1, target // 40)
        if rnd.random() < 0.5:
            big += '[Unit]\nDescription=' + 'd' * rnd.choice([1023, 1024, 5000]) + '\n'
        fs['big%d.container' % target] = big
    for n, t in fs.items():
        if '@.' in n and rnd.random() < 0.5:
            # a template without instance whose alias is its own service name
            t += '[Install]\n' + rnd.choice(['', 'DefaultInstance=one\n']) + 'Alias=' + n.rsplit('.', 1)[0] + ('' if n.endswith(('.container', '.kube')) else '-' + n.rsplit('.', 1)[-1]) + '.service\n'
        elif rnd.random() < 0.4:
            t += '[Install]\n' + rnd.choice(['WantedBy=default.target\n', 'WantedBy=a.target b.target\nAlias=foo.service\n', 'RequiredBy=x.service\nAlias=sub/dir/y.service\n',
                                             'Alias=../escape.service /abs/x.service\n', 'DefaultInstance=i1\nWantedBy=m.target\n',
                                             # an alias that is the name of the generated service itself (ignored: the file stays a file)
                                             'Alias=' + n.rsplit('.', 1)[0] + {'container': '', 'kube': '', 'volume': '-volume', 'network': '-network', 'image': '-image',
                                                                               'build': '-build', 'pod': '-pod'}.get(n.rsplit('.', 1)[-1], '') + '.service\nWantedBy=default.target\n',
                                             'DefaultInstance=one\nAlias=' + n.rsplit('.', 1)[0] + '.service extra.service\n'])
        if rnd.random() < 0.1:
            t = rnd.choice(['[Broken\n', 'NoSection=1\n', '[Container]\nK\n']) + t
        files['src/' + n] = t
    if rnd.random() < 0.2:
        files['src/notaunit.txt'] = 'hello'
    return files


def oracle(ctx):
    res = ctx.res
    # (T1) control flow of main.rs (continue / break / return / exit / `?` / dry-run guards / error pushes): inventory regenerated
    # from the source vs the reviewed one — the loop policy the run-level models assume
    import sys as _sys, json as _json
    _rc, _o, _e = core.sh([_sys.executable, os.path.join(core.VERIF, 'tools', 'flow_sites.py'), core.REPO, os.path.join(core.BUILD, 'flow_sites.json')])
    _have = {(x['fn'], x['kind'], x['stmt'], x['n']) for x in (_json.load(open(os.path.join(core.BUILD, 'flow_sites.json'))) if _rc == 0 else [])}
    _spec = {(x['fn'], x['kind'], x['stmt'], x['n']) for x in _json.load(open(os.path.join(core.VERIF, 'spec', 'flow_sites.json')))}
    _diff = sorted(_have ^ _spec)
    res.extra_obligations.append(('control-flow inventory of main.rs matches the reviewed one (spec/flow_sites.json)', _rc == 0 and not _diff,
                                  'statements that differ: ' + '; '.join(f'{d[0]}: {d[2][:70]}' for d in _diff[:6])))
    # serialisers on the real code: to_string == write_to for random units
    import props.c15 as c15
    rnd = ctx.rnd
    ops = [c15.mutation_script(rnd) for _ in range(1500 if ctx.thorough else 400)]
    for op, a in zip(ops, ctx.impl(ops)):
        res.oracle_evals += 1
        f = a[3:].split(' | ') if a.startswith('ok ') else []
        # answers: possibly some 'err Unquoting', then dump, to_string, write_to, len, histories
        try:
            i = next(i for i, x in enumerate(f) if x.startswith('S') or x == '')
            if f[i + 1] != f[i + 2]:
                res.oracle_failures.append(dict(op=op, impl_output=core.dec_line(a)[:600], oracle_expectation='to_string() == write_to() output'))
        except (StopIteration, IndexError):
            pass
    trees = [gen_tree(ctx) for _ in range(250 if ctx.thorough else 60)]

    # every other normal run goes into an output directory that already holds longer files of the same names
    stale = [i % 2 == 1 for i in range(len(trees))]
    # the list of search directories is part of the input: entries that are missing, dangling links, link loops, plain files
    odd_dirs = []
    for i in range(len(trees)):
        r = rnd.random()
        odd_dirs.append(None if r < 0.7 else rnd.choice(['missing', 'dangling', 'loop', 'file', 'dangling-first']))

    def both(ts):
        files, st, odd = ts
        if odd is None:
            return e2e.run_pair(files, stale=st, unpriv_default_logging=(hash(str(sorted(files))) % 4 == 0))
        links = {'dangling': {'odd': 'nowhere/at/all'}, 'dangling-first': {'odd': 'nowhere'}, 'loop': {'odd': 'odd2', 'odd2': 'odd'}}.get(odd)
        if odd == 'file':
            files = dict(files, odd='not a directory')
        return e2e.run_pair(files, stale=st, symlinks=links, extra_dirs=('odd',))
    for files, (d, n) in zip(trees, e2e.pmap(both, list(zip(trees, stale, odd_dirs)))):
        res.oracle_evals += 1
        fails = []
        if d['before'] != d['after']:
            delta = {k: (d['before'].get(k), d['after'].get(k)) for k in set(d['before']) | set(d['after']) if d['before'].get(k) != d['after'].get(k)}
            fails.append(f'--dry-run changed the file system: {delta}')
        if d['exit'] not in (0, 1) or n['exit'] not in (0, 1):
            fails.append(f'exit status {d["exit"]} / {n["exit"]}')
        if d['exit'] != n['exit']:
            fails.append(f'exit status differs: dry-run {d["exit"]}, normal {n["exit"]}')
        printed = {os.path.basename(k): v for k, v in d['printed'].items()}
        written = {k: e2e.strip_header(v) for k, v in n['services'].items()}
        # known finding KF-C19-1 (match = alias_names_another_units_service_file): an Alias= of one unit that is the service file name of
        # ANOTHER unit of the run — a name clash between two units, like KF-C10-1: such runs are not compared file by file
        taken = set()
        for fn, t in files.items():
            for l in t.split('\n'):
                if l.startswith('Alias='):
                    for w in l[6:].split():
                        for k, v in printed.items():
                            if os.path.normpath(w) == k and ('SourcePath=' + os.sep) in v and not re.search(r'^SourcePath=.*/' + re.escape(os.path.basename(fn)) + '$', v, re.M):
                                taken.add(k)
        if taken:
            # the link replaces that unit's file, or — when the alias is made first — that unit's text is written through the link
            # into the aliasing unit's file: no file of the run is compared
            printed, written = {}, {}
        if len(printed) == len(d['printed']) or taken:  # no two units with the same service file name (KF-C10-1 is about that case)
            if set(printed) != set(written):
                fails.append(f'services printed {sorted(printed)} vs written {sorted(written)}')
            for k in set(printed) & set(written):
                if canon_text(printed[k]) != canon_text(written[k]):
                    fails.append(f'{k}: printed text differs from written text:\n{printed[k]!r}\n{written[k]!r}')

        if e2e.error_lines(d['stderr']) != e2e.error_lines(n['stderr']):
            fails.append(f'load/conversion errors differ: {e2e.error_lines(d["stderr"])} vs {e2e.error_lines(n["stderr"])}')
        for f in fails:
            res.oracle_failures.append(dict(op='e2e', tree=files, impl_output=dict(dry_exit=d['exit'], run_exit=n['exit'], dry_stderr=d['stderr'][-800:], run_stderr=n['stderr'][-800:]),
                                            oracle_expectation=f))
    # "creates, modifies and deletes nothing" also when there is something to delete or modify: a dry run into the output directory of an
    # earlier normal run, after one unit was edited so that it no longer converts, one so that it no longer loads, one removed and one
    # given another [Install] section — the whole sandbox must be byte for byte what it was
    def rerun(files):
        base = e2e.fresh_dir()
        os.makedirs(os.path.join(base, 'src'))
        e2e.write_tree(base, files)
        out = os.path.join(base, 'out')
        e2e.run_binary(['--no-kmsg-log', out], os.path.join(base, 'src'))
        names = sorted(n for n in files if n.startswith('src/') and '.' in n)
        edits = [lambda t: t + '[Quadlet]\nNoSuchKey=1\n', lambda t: '[Broken\n' + t, None, lambda t: t + '[Install]\nWantedBy=other.target\nAlias=other-alias.service\n']
        for i, n in enumerate(names[:4]):
            p = os.path.join(base, n)
            if edits[i] is None:
                os.unlink(p)
            else:
                with open(p, 'w') as f:
                    f.write(edits[i](files[n]))
        before = e2e.snapshot(base)
        rc, so, se = e2e.run_binary(['--dry-run', '--no-kmsg-log', out], os.path.join(base, 'src'))
        after = e2e.snapshot(base)
        shutil.rmtree(base, ignore_errors=True)
        return before, after, rc
    import shutil
    again = [t for t in trees if sum(1 for n in t if n.startswith('src/')) >= 2][: (60 if ctx.thorough else 20)]
    for files, (before, after, rc) in zip(again, e2e.pmap(rerun, again)):
        res.oracle_evals += 1
        if before != after:
            delta = {k: (before.get(k), after.get(k)) for k in set(before) | set(after) if before.get(k) != after.get(k)}
            res.oracle_failures.append(dict(op='e2e', tree=files, impl_output=dict(dry_exit=rc, changed=str(delta)[:600]),
                                            oracle_expectation='a --dry-run into the output directory of an earlier run (after units were edited, broken or removed) changes nothing on the file system'))
    # known finding KF-C19-1: re-confirmed on its example on every run
    import json as _json2
    for k in ctx.known:
        ex = _json2.load(open(os.path.join(core.VERIF, 'known_findings.d', k['example'])))
        dd, nn = e2e.run_pair({'src/' + n: t for n, t in ex['files'].items()})
        pr = {os.path.basename(p): canon_text(v) for p, v in dd['printed'].items()}
        wr = {p: canon_text(e2e.strip_header(v)) for p, v in nn['services'].items()}
        if pr != wr:
            res.known_hits[k['id']] = k['what']
    res.samples.append(dict(kind='e2e-tree', files=trees[0]))
    ctx.log(f'oracle: {res.oracle_evals} evaluations, {len(res.oracle_failures)} failures')


def canon_text(t):
    return '\n'.join(canon.canon_exec(l) if l.startswith('Exec') else l for l in t.split('\n'))
