"""C20 — ExposeHostPort accepts exactly port[-port][/tcp|/udp]"""
import itertools, re
import core
from core import hx, unhx

LEAN_MODULE = 'QM.Props.C20'
THEOREMS = ['Port.C20_recogniser', 'Port.C20_rejects', 'Port.C20_no_leading_separator']
ASSUMPTIONS = [
    'Port.isPortRange is a hand-written model of is_port_range; it is tied to the code by the exhaustive port_range '
    'correspondence (all strings over the recogniser\'s alphabet up to the length bound) and random longer strings',
    'the call site (trim, --expose, error text) is checked on the real converter through the hook driver',
]
ALPHA = ['0', '7', '-', '/', 't', 'c', 'p', 'u', 'd', 'x']
SPEC_RE = re.compile(r'[0-9]+(-[0-9]+)?(/tcp|/udp)?')


def gen_strings(ctx):
    n = 7 if ctx.thorough else 5
    out = []
    for k in range(0, n + 1):
        for cs in itertools.product(ALPHA, repeat=k):
            out.append(''.join(cs))
    rnd = ctx.rnd
    extra = ['${PORT}', '$PORT', '80-${LAST}', '${A}-${B}/tcp', '${}', '%i', '80-%i/udp', '0x50', '+80', '８０８０', '٨٠٨٠', '80８0', '8²', '½', '2000-３０００', '８０/tcp', '80/ｔcp', '1\u200b2', '٣', '8080', '1-2/tcp', '1-2/udp', '65535-65536/tcp', '80/tcp/udp', '80-90-100', ' 80', '80 ', '８０', '80/TCP', '80/tcpx',
             '80/tc', '80/ud', '80/tdp', '80/ucp', '-', '/', '', '0', '00/udp']
    out += extra
    for _ in range(20000 if ctx.thorough else 3000):
        # near-valid strings: mutate a valid one
        base = rnd.choice(['80', '80-90', '80/tcp', '80-90/udp', '1/udp', '12345-54321/tcp'])
        s = list(base)
        for _ in range(rnd.randint(0, 3)):
            r = rnd.random()
            if r < 0.4 and s:
                s[rnd.randrange(len(s))] = rnd.choice(ALPHA + ['9', 'T', ' ', 'é'])
            elif r < 0.7:
                s.insert(rnd.randint(0, len(s)), rnd.choice(ALPHA + ['9', ' ']))
            elif s:
                del s[rnd.randrange(len(s))]
        out.append(''.join(s))
    return out


def corr_ops(ctx):
    ctx._c20_strings = gen_strings(ctx)
    return ['port_range\t' + hx(s) for s in ctx._c20_strings]


def container(values, extra=''):
    return '[Container]\nImage=img\n' + ''.join(f'ExposeHostPort={v}\n' for v in values) + extra


def oracle(ctx):
    """the specification (the anchored regular expression, and the model function proved equivalent to it by
    C20_recogniser) applied to the implementation's own answers; then the call site"""
    res = ctx.res
    strings = getattr(ctx, '_c20_strings', None) or gen_strings(ctx)
    ops = ['port_range\t' + hx(s) for s in strings]
    io = ctx.impl(ops)
    mo = ctx.model(ops) if ctx.st.model_ok else [None] * len(ops)
    for s, a, b in zip(strings, io, mo):
        res.oracle_evals += 1
        want = bool(SPEC_RE.fullmatch(s))
        got = a == 'ok true'
        if a not in ('ok true', 'ok false') or got != want:
            res.oracle_failures.append(dict(op='port_range\t' + hx(s), input=s, impl_output=a,
                                            oracle_expectation=f'accept={want} (regular expression ^\\d+(-\\d+)?(/tcp|/udp)?$; Port.Spec)',
                                            model_output=b))
    # call site: every accepted value is passed unchanged after --expose, in order; otherwise an error quoting the value
    rnd = ctx.rnd
    # accepted means accepted by its *form*: a range whose first port is the larger one, ports beyond 65535 or beyond 32 bits, leading
    # zeros — all of them are `port[-port][/tcp|/udp]`
    pool_ok = ['80', '8080-8090', '53/udp', '1-2/tcp', '0', '3000-2000', '10-9/udp', '65535-1', '0100-99', '70000', '99999999999-1/tcp', '0-0', '007']
    # (what systemd would expand later is not a decimal port now: variable references, specifiers, arithmetic — "a decimal port" is digits)
    pool_bad = ['/tcp', '-5', '1-/udp', '80/sctp', 'http', '80 90', '80,90', '', '${PORT}', '$PORT', '8080-${LAST}/tcp', '${FIRST}-${LAST}', '80${SUFFIX}/udp',
                '${}', '%i', '80%%', '8080-%i/tcp', '0x50', '8e1', '+80', '80-+90']
    cases = []
    for _ in range(400 if ctx.thorough else 120):
        vals = [rnd.choice(pool_ok) for _ in range(rnd.randint(1, 3))]
        if rnd.random() < 0.5:
            vals.insert(rnd.randint(0, len(vals)), rnd.choice(pool_bad) if rnd.random() < 0.5 else rnd.choice([s for s in strings[:2000] if s]))
        if rnd.random() < 0.25:
            # a value that is not empty in the file but blank once unquoted: not a reset (the raw text is not empty), not a port
            vals.insert(rnd.randint(0, len(vals)), 'BLANK:' + rnd.choice(['""', "''", '" "', '"\\t"', '\\s', '\\x20', '"" ', '"\\x20\\t"']))
        # white space around the value: bare in the file (dropped by the reader) or protected by quotes / escapes, so that
        # it reaches the converter — which must ignore it and pass the bare value on
        def spell(v):
            if v.startswith('BLANK:'):
                return v[6:]
            r = rnd.random()
            if r < 0.55 or v == '' or '"' in v or '\\' in v:
                return rnd.choice(['', ' ', '  ', '\t']) + v + rnd.choice(['', ' ', '\t '])
            return rnd.choice(['" ' + v + ' "', '"' + v + '"', v + '\\t', '\\x20' + v, '"\\t' + v + '"', "' " + v + "'", v + '\\s'])
        deco = [spell(v) for v in vals]
        cases.append((vals, deco))
    # every value of the pools once on its own, as written
    for v in pool_bad + pool_ok:
        cases.append(([v], [v]))
    # one assignment is one value, whatever is inside it: interior white space does not make it a list of ports
    for multi in ('80 90', '8080 9090', '80\t443', '8080 90x0/tcp', '1-2 3-4/udp', '80  81'):
        for before in ([], ['53/udp']):
            cases.append((before + [multi], before + [multi]))
    # the options of the container are its own whatever company it keeps: a third of the cases are members of a pod of the same run
    in_pod = [rnd.random() < 0.33 for _ in cases]
    ops = [(f'convert\t0\t0\t{hx("/q/c.container")}\t{hx(container(d))}' if not pod else
            f'convert\t0\t0\t{hx("/q/c.container")}\t{hx(container(d) + "Pod=p.pod" + chr(10))}\t{hx("/q/p.pod")}\t{hx("[Pod]" + chr(10))}') for (_, d), pod in zip(cases, in_pod)]
    io = ctx.impl(ops)
    for (vals, deco), op, a in zip(cases, ops, io):
        res.oracle_evals += 1
        blank = lambda v: '' if v.startswith('BLANK:') else v.strip()
        reset = lambda v: not v.startswith('BLANK:') and v.strip() == ''
        eff = [blank(v) for v in vals if not reset(v)]  # an empty assignment resets the list (C15)
        # list reset semantics: everything before the last empty assignment is dropped
        if any(reset(v) for v in vals):
            idx = max(i for i, v in enumerate(vals) if reset(v))
            eff = [blank(v) for v in vals[idx + 1:]]
        bad = [v for v in eff if not SPEC_RE.fullmatch(v)]
        fail = None
        if bad:
            if not a.startswith('ok err InvalidPortFormat '):
                fail = f'expected an InvalidPortFormat error quoting {bad[0]!r}'
            else:
                msg = unhx(a.split(' ')[3])
                if repr(bad[0]).strip("'") not in msg and bad[0] not in msg:
                    fail = f'error message {msg!r} does not quote the value {bad[0]!r}'
        else:
            if not a.startswith('ok svc '):
                fail = 'expected a service'
            else:
                toks = a.split(' ')
                execs = [unhx(toks[i + 1][1:]) for i in range(len(toks) - 1) if toks[i] == 'K' + hx('ExecStart')]
                words = execs[-1].split(' ') if execs else []
                got = [words[i + 1] for i in range(len(words) - 1) if words[i] == '--expose']
                if got != eff:
                    fail = f'--expose arguments {got} differ from the accepted values {eff}'
        if fail:
            res.oracle_failures.append(dict(op=op, input=deco, impl_output=core.dec_line(a), oracle_expectation=fail))
    # the values may come from drop-ins too (resets included): the same history of ExposeHostPort= assignments written in one file, or
    # with its later part in drop-ins of one or two search directories, is accepted or rejected alike and gives the same --expose options
    import filespell
    hist = []
    for _ in range(90 if ctx.thorough else 30):
        hv = [rnd.choice(pool_ok + pool_ok + ['', '', 'http', '80/sctp']) for _ in range(rnd.randint(2, 5))]
        hist.append({'c.container': '[Container]\nImage=localhost/i\n' + ''.join(f'ExposeHostPort={v}\n' for v in hv)})
    filespell.compare(ctx, hist, ['two', 'two-dirs', 'two-dirs-rev', 'dropin'], 'C20 histories of ExposeHostPort= in drop-ins')
    res.samples.append(dict(kind='oracle-case', values=cases[0][1], impl=core.dec_line(io[0])[:300]))
    ctx.log(f'oracle: {res.oracle_evals} evaluations, {len(res.oracle_failures)} failures')

LEVEL_TEXT = ('Proof: Lean theorem C20_recogniser shows the model of is_port_range accepts exactly the anchored regular expression, for every '
              'string (induction over the input, no length bound). The model is tied to the Rust function by an exhaustive correspondence over '
              'the recogniser\'s alphabet up to length 5 (quick) / 7 (thorough) plus random near-valid strings, and the call site '
              '(trim, --expose, error text) is checked against the real converter.')
LEVEL_NOTE = ('Trusted: Lean kernel; the hand-written model equals the code on the strings run (exhaustive up to the bound); the call-site claims '
              '(value passed unchanged after --expose, error quoting the value) are checked on generated units, not proved.')
TECHNIQUE = 'Lean 4 proof (recogniser = regular expression, by induction) + exhaustive model/code correspondence'
