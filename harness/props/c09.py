"""C09 — pod membership is wired symmetrically between pods and their containers"""
import os, re, shutil
import core, gen, gen_units as G, canon, refs, e2e
from core import hx, unhx
import props.c08 as c08

LEAN_MODULE = 'QM.Props.C08'
THEOREMS = ['Refine.C08_process_refines', 'Refine.C09_members_order_free', 'Refine.C09_members_exact', 'Cv.C08_process_concrete', 'Cv.C09_members_concrete', 'Cv.C09_pod_wants_members', 'Cv.pod_members', 'Cv.sys_local', 'Cv.link_higher', 'Cv.fromContainer_link', 'Cv.C08_priorities', 'Conform.sorting_priority']
ASSUMPTIONS = c08.ASSUMPTIONS + ['a container that fails after it was recorded in its pod\'s start list still appears there (observed; handle_pod runs before the remaining steps); the oracle follows the property text and counts only containers that reach handle_pod']
LEVEL_TEXT = ('Proof (abstract refinement) + oracle: by C08_process_refines every pod is converted against the complete list of containers that link to it '
              'under the final table, whatever sorted order was used; C09_members_exact says that list holds exactly the linkers (no more, no fewer), '
              'C09_members_order_free that it is the same multiset for every processing order; the priority pod > container needed for it is decided '
              'from the extracted table. The concrete wiring (pod-id file path equal on both sides, BindsTo/After, Wants/Before of exactly the members '
              'that did not opt out, failures of Pod= values) is checked on the real converters over random sets of pods and containers with random '
              'names, explicit service names and StartWithPod choices, in several sorted orders.')
LEVEL_NOTE = c08.LEVEL_NOTE
TECHNIQUE = 'Lean 4 refinement proof (pods see exactly their linkers, order-free) + membership oracle on the real converters'

STEMS = ['a', 'b', 'web', 'db', 'p1', 'p2', 'my pod', 'x.y', 'c@', 'c@i']


def gen_set(rnd):
    n_p, n_c = rnd.randint(0, 3), rnd.randint(0, 5)
    stems = rnd.sample(STEMS, min(len(STEMS), n_p + n_c))
    pods = [s + '.pod' for s in stems[:n_p]]
    fs = {}
    for p in pods:
        L = ['[Pod]']
        if rnd.random() < 0.4:
            L.append('ServiceName=' + rnd.choice(['psvc-' + refs.stem_of(p).replace(' ', '_'), 'pod svc', 'cache.service', 'a.b', 'x.service.service', 'p.pod']))
        if rnd.random() < 0.3:
            L.append('PodName=pn-' + refs.stem_of(p).replace(' ', '_'))
        if len(L) == 1 and rnd.random() < 0.35:
            # every key of [Pod] is optional, and so is the section: a pod file that is empty, or holds only other sections, is a pod
            L = rnd.choice([[], ['[Unit]', 'Description=just a pod'], ['[Install]', 'WantedBy=default.target'], ['# a pod with defaults only']])
        fs[p] = '\n'.join(L) + '\n'
    for s in stems[n_p:]:
        L = ['[Container]', 'Image=localhost/i']
        r = rnd.random()
        if r < 0.6 and pods:
            L.append('Pod=' + rnd.choice(pods))
        elif r < 0.7:
            L.append('Pod=' + rnd.choice(['missing.pod', 'notapod', 'x.container', '']))
        if rnd.random() < 0.5:
            L.append('StartWithPod=' + rnd.choice(['no', 'yes', 'false', 'true', '', '0', '1', 'on', 'off',
                                                    # spellings that are not boolean words: anything but a true word opts out
                                                    'False', 'No', 'OFF', 'n', 'x', '2', 'TRUE', 'y']))
        if rnd.random() < 0.3:
            L.append('ServiceName=' + rnd.choice(['csvc-' + s.replace('@', ''), 'c svc', 'web.service', 'c.container']))
        if rnd.random() < 0.1:
            L.append('Bogus=1')
        if rnd.random() < 0.15:
            # a member that fails late in its conversion (after its networks, volumes, … were handled): it is not a member
            L += rnd.choice([['Volume=missing.volume:/d'], ['Mount=type=volume,source=missing.volume,dst=/m'], ['Group=g'], ['ExposeHostPort=x'],
                             ['Network=missing.network'], ['Mount=type=bogus,dst=/m'], ['RemapUsers=bad'], ['[Service]', 'Type=bogus'],
                             ['[Service]', 'KillMode=bogus'], ['PublishPort=1:2:3:4:5'], ['Secret='], ['Pull=bogus']])
        if rnd.random() < 0.2:
            # the ordering after the pod is part of the membership, not one of the default dependencies a unit may switch off
            L += ['[Quadlet]', 'DefaultDependencies=' + rnd.choice(['no', 'false', '0', 'off', 'yes'])]
        fs[s + '.container'] = '\n'.join(L) + '\n'
    # a container that fails beside a healthy member whose name merely resembles it (one service name a prefix or a suffix of the other,
    # through the file names or through ServiceName=): membership is decided per unit, by its whole name
    if pods and rnd.random() < 0.3:
        base = rnd.choice(['db', 'w', 'a', 'p1'])
        bad, good = rnd.choice([(base, base + '-backup'), (base, base + '2'), (base + '-backup', base), ('x' + base, base)])
        broken = rnd.choice([['Pod=nosuch.pod'], ['Pod=' + rnd.choice(pods), 'Bogus=1'], ['Pod=' + rnd.choice(pods), 'PublishPort=1:2:3:4:5'], ['Bogus=1']])
        via_name = rnd.random() < 0.3
        fs[('bad-one' if via_name else bad) + '.container'] = '\n'.join(['[Container]', 'Image=localhost/i'] + broken + (['ServiceName=' + bad] if via_name else [])) + '\n'
        fs[('good-one' if via_name else good) + '.container'] = '\n'.join(['[Container]', 'Image=localhost/i', 'Pod=' + rnd.choice(pods)] + (['ServiceName=' + good] if via_name else [])) + '\n'
    # Pod= naming an EXISTING unit that is not a pod (another container, the container itself, a volume, a network):
    # the name table holds units of every type, so only the suffix test keeps these out
    ctrs = [n for n in fs if n.endswith('.container')]
    if ctrs and rnd.random() < 0.25:
        if rnd.random() < 0.5:
            fs['data.volume'] = '[Volume]\n'
        if rnd.random() < 0.5:
            fs['n.network'] = '[Network]\n'
        victim = rnd.choice(ctrs)
        target = rnd.choice([n for n in fs if not n.endswith('.pod')])
        lines = [l for l in fs[victim].split('\n') if l and not l.startswith('Pod=')]
        fs[victim] = '\n'.join(lines + ['Pod=' + target]) + '\n'
    return fs


def gen_sets(ctx, n):
    rnd = ctx.rnd
    out = []
    for _ in range(n):
        fs = gen_set(rnd)
        names = list(fs)
        out.append((names, fs, G.sorted_order(rnd, names, ctx.tables)))
    return [x for x in out if x[0]]


def corr_ops(ctx):
    ctx._sets9 = gen_sets(ctx, 4000 if ctx.thorough else 900)
    return [c08.op_of(n, f, o) for n, f, o in ctx._sets9]


project = c08.project


def nontrivial(op, out):
    return '-pod.service' in out or 'pod-id' in out


def unq(v):
    return v[1:-1].replace('\\x20', ' ') if v.startswith('"') and v.endswith('"') else v.replace('\\x20', ' ')


def oracle(ctx):
    res = ctx.res
    sets = getattr(ctx, '_sets9', None) or gen_sets(ctx, 900)
    ops = [c08.op_of(n, f, o) for n, f, o in sets]
    io = ctx.impl(ops)
    for (names, fs, order), op, a in zip(sets, ops, io):
        res.oracle_evals += 1
        rs = canon.parse_convert(a)
        results = {names[i]: r for i, r in zip(order, rs)}
        fails = []
        members = {p: [] for p in names if p.endswith('.pod')}
        for n in names:
            if not n.endswith('.container'):
                continue
            own = refs.parse_simple(fs[n]).get('Container', [])
            pod = refs.last(own, 'Pod')
            r = results[n]
            if pod is None or pod == '':
                continue
            if not pod.endswith('.pod'):
                if r[0] != 'err':
                    fails.append(f'{n}: Pod={pod} does not name a .pod file and must fail the container')
                continue
            if pod not in fs:
                if r[0] != 'err' or (r[1] == 'PodNotFound' and pod not in r[2]):
                    fails.append(f'{n}: Pod={pod} names a missing file and must fail the container, naming it: {r[:3]}')
                continue
            if r[0] != 'svc':
                continue   # fails for another reason (e.g. unknown key): not a member
            psvc = refs.service_name(pod, fs[pod])
            execs = [v for k, v in r[2].get('Service', []) if k == 'ExecStart']
            idfile = f'%t/{psvc}.pod-id'
            if not execs or (f'--pod-id-file {idfile}' not in execs[-1] and f'--pod-id-file "{idfile}"' not in execs[-1].replace('\\x20', ' ')):
                fails.append(f'{n}: must be created with --pod-id-file {idfile}: {execs}')
            unit = [(k, unq(v)) for k, v in r[2].get('Unit', [])]
            for dep in ('BindsTo', 'After'):
                if (dep, psvc + '.service') not in unit:
                    fails.append(f'{n}: [Unit] must have {dep}={psvc}.service: {unit}')
            swp = refs.last(own, 'StartWithPod')
            if swp is None or swp.strip() == '' or swp in ('yes', 'true', '1', 'on'):
                members[pod].append(refs.service_name(n, fs[n]) + '.service')
        for p, ms in members.items():
            r = results[p]
            if r[0] != 'svc':
                continue
            unit = [(k, unq(v)) for k, v in r[2].get('Unit', [])]
            wants = sorted(v for k, v in unit if k == 'Wants' and v != 'network-online.target')
            before = sorted(v for k, v in unit if k == 'Before')
            if wants != sorted(ms) or before != sorted(ms):
                fails.append(f'{p}: Wants {wants} / Before {before} must be exactly its containers that start with it {sorted(ms)}')
            # the pod's own service writes the pod-id file the containers use, under %N -> its service name
            svcs = ' '.join(v for k, v in r[2].get('Service', []))
            if '%t/%N.pod-id' not in svcs:
                fails.append(f'{p}: the pod service must use %t/%N.pod-id')
            if r[1] != refs.service_name(p, fs[p]) + '.service':
                fails.append(f'{p}: service file {r[1]!r} != {refs.service_name(p, fs[p])}.service (so %N would differ from the name the containers use)')
        for f in fails:
            res.oracle_failures.append(dict(op=op, input=fs, impl_output=core.dec_line(a)[:900], oracle_expectation=f))
    res.samples.append(dict(kind='oracle-case', files=sets[0][1]))
    ctx.log(f'oracle: {res.oracle_evals} evaluations, {len(res.oracle_failures)} failures')


# ---------------------------------------------------------------------------------------------------------------
# whole runs with drop-ins: the wiring must be *consistent* between the two sides whatever the names are derived from

DROPIN_LINES = {'pod': ['ServiceName=pd-svc', 'ServiceName=other pod', 'PodName=pn-drop', 'PodmanArgs=--x'],
                'container': ['ServiceName=cd-svc', 'ContainerName=cn-drop', 'StartWithPod=no', 'StartWithPod=yes', 'StartWithPod=', 'StartWithPod=False', 'StartWithPod=n', 'PodmanArgs=--y']}


def gen_tree(rnd):
    fs = gen_set(rnd)
    files = {}
    links = {}
    for name, text in fs.items():
        ty = refs.ty_of(name)
        if rnd.random() < 0.2:
            # the unit is a symbolic link to a file of another name elsewhere: a unit is known by the name it has in the
            # search directory (that is the name Pod= uses and the name the service is derived from)
            tgt = 'store/' + rnd.choice(['real-' + name, 'f%d' % len(links), name.replace('.', '-prod.')])
            files[tgt] = text
            links['src/' + name] = '../' + tgt
        else:
            # the place of a file (a sub-directory, a second search directory) decides nothing but the order of discovery
            files[rnd.choice(['src/', 'src/', 'src/a/', 'src/z/', 'src/m/n/', 'alt/']) + name] = text
        for conf in rnd.sample(['10-a.conf', '20-b.conf'], rnd.randint(0, 2)):
            if rnd.random() < 0.6 and ty in DROPIN_LINES:
                files[rnd.choice(['src', 'alt']) + f'/{name}.d/{conf}'] = '[' + G.SEC[ty] + ']\n' + rnd.choice(DROPIN_LINES[ty]) + '\n'
        if ty == 'pod' and '@' not in name and rnd.random() < 0.35:   # (a template's drop-ins also belong to its instances: kept out of this expectation)
            # the user's own [Unit] entries of the pod may already name a member's service (or anything else): they stay, and the
            # generator still adds its Wants= and Before= for every member
            cands = [n[:-len('.container')] + '.service' for n in fs if n.endswith('.container')] + ['elsewhere.service']
            files[f'src/{name}.d/30-unit.conf'] = '[Unit]\n' + ''.join(rnd.choice(['Wants=', 'Wants=', 'Before=']) + rnd.choice(cands) + '\n' for _ in range(rnd.randint(1, 2)))
    return fs, files, links


def wiring_failures(printed, files=None):
    """printed: list of (service path, text) of one --dry-run; checks pod<->container consistency on what was generated"""
    fails = []
    units = {}
    for path, text in printed:
        m = re.search(r'^SourcePath=(.*)$', text, re.M)
        if not m:
            continue
        src = os.path.basename(m.group(1).strip('"').replace('\\x20', ' '))
        units[src] = dict(service=os.path.basename(path), text=text)
    pods = {n: u for n, u in units.items() if n.endswith('.pod')}
    members = {n: [] for n in pods}
    for n, u in units.items():
        if not n.endswith('.container'):
            continue
        xc = u['text'].split('[X-Container]', 1)[1].split('\n[', 1)[0] if '[X-Container]' in u['text'] else ''
        vals = re.findall(r'^Pod=(.*)$', xc, re.M)
        pod = vals[-1] if vals else ''
        if pod == '' or pod not in pods:
            continue
        psvc = pods[pod]['service']
        stem = psvc[:-len('.service')]
        ex = [l for l in u['text'].split('\n') if l.startswith('ExecStart=')]
        ex = ex[-1].replace('\\x20', ' ') if ex else ''
        if f'--pod-id-file %t/{stem}.pod-id' not in ex and f'--pod-id-file "%t/{stem}.pod-id"' not in ex:
            fails.append(f'{n}: created with another pod-id file than the one {pod} ({psvc}) writes: {ex[-200:]}')
        unit = u['text'].split('[Unit]', 1)[1].split('\n[', 1)[0].replace('\\x20', ' ').replace('"', '')
        for dep in ('BindsTo', 'After'):
            if f'{dep}={psvc}' not in unit:
                fails.append(f'{n}: [Unit] lacks {dep}={psvc} (the service generated for {pod})')
        sw = re.findall(r'^StartWithPod=(.*)$', xc, re.M)
        if not sw or sw[-1].strip() == '' or sw[-1] in ('yes', 'true', '1', 'on'):
            members[pod].append(u['service'])
    for pod, ms in members.items():
        unit = pods[pod]['text'].split('[Unit]', 1)[1].split('\n[', 1)[0].replace('\\x20', ' ').replace('"', '')
        wants = sorted(v for v in re.findall(r'^Wants=(.*)$', unit, re.M) if v != 'network-online.target')
        before = sorted(re.findall(r'^Before=(.*)$', unit, re.M))
        # what the user wrote in the pod's own [Unit] (here: the 30-unit.conf drop-in) is kept besides
        own = (files or {}).get(f'src/{pod}.d/30-unit.conf', '')
        ms = list(ms)
        wants_user, before_user = re.findall(r'^Wants=(.*)$', own, re.M), re.findall(r'^Before=(.*)$', own, re.M)
        if wants != sorted(ms + wants_user) or before != sorted(ms + before_user):
            fails.append(f'{pod}: Wants {wants} / Before {before} must be the user\'s own ({wants_user} / {before_user}) and one each for the services generated for its containers {sorted(ms)}')
        elif False:
            fails.append(f'{pod}: Wants {wants} / Before {before} differ from the services generated for its containers {sorted(ms)}')
        if '%t/%N.pod-id' not in pods[pod]['text']:
            fails.append(f'{pod}: does not write %t/%N.pod-id')
    return fails


_oracle_sets = oracle


def oracle(ctx):
    _oracle_sets(ctx)
    res = ctx.res
    rnd = ctx.rnd
    trees_ = [gen_tree(rnd) for _ in range(400 if ctx.thorough else 120)]

    def run(t):
        fs, files, links = t
        r = e2e.run_case(files, dirs=('src', 'alt'), dry_run=True, symlinks=links)
        return r['printed_order'], r['exit'], r['stderr']
    for (fs, files, links), (printed, rc, se) in zip(trees_, e2e.pmap(run, trees_)):
        res.oracle_evals += 1
        if links:
            files = dict(files, **{k + ' (symbolic link)': v for k, v in links.items()})
        # a pod file that is there under the name Pod= uses (a regular file or a symbolic link) is never reported missing
        for name in fs:
            if name.endswith('.pod') and re.search(r'pod unit "?' + re.escape(name) + r'"? does not exist', se) and not re.search(r'[Ee]rror loading [^\n]*' + re.escape(name), se):
                res.oracle_failures.append(dict(op='e2e', input=files, impl_output=dict(exit=rc, stderr=e2e.error_lines(se)[:4]),
                                                oracle_expectation=f'{name} exists in the search directory: a container naming it is linked to it, not rejected'))
        # every pod of the tree gets the service its name in the search directory stands for
        sources = {os.path.basename(m.group(1).strip('"').replace('\\x20', ' ')) for _, text in printed for m in [re.search(r'^SourcePath=(.*)$', text, re.M)] if m}
        for name in fs:
            if name.endswith('.pod') and name not in sources and not re.search(re.escape(name), se):
                res.oracle_failures.append(dict(op='e2e', input=files, impl_output=dict(exit=rc, sources=sorted(sources), stderr=e2e.error_lines(se)[:4]),
                                                oracle_expectation=f'a service is generated for {name} under that name (SourcePath names the file in the search directory), or an error names it'))
        # two units with one service file name (KF-C10-1 situation) make "the service generated for p" ambiguous: skip
        names = [os.path.basename(p) for p, _ in printed]
        if len(names) != len(set(names)):
            continue
        for f in wiring_failures(printed, files):
            res.oracle_failures.append(dict(op='e2e', input=files, impl_output=dict(exit=rc, services=names), oracle_expectation=f))
    # membership is decided by the *effective* Pod= / StartWithPod= (C15: the last assignment, drop-ins merged in name order after the
    # main file): a container whose file assigns them several times generates the same services when the later assignments are moved
    # into drop-ins — in one or two search directories, whatever the order of the directories
    import filespell
    hist = []
    for _ in range(120 if ctx.thorough else 40):
        lines = ['[Container]', 'Image=localhost/i']
        for _k in range(rnd.randint(2, 5)):
            lines.append(rnd.choice(['Pod=p.pod', 'Pod=q.pod', 'Pod=', 'StartWithPod=no', 'StartWithPod=yes', 'StartWithPod=', 'StartWithPod=false']))
        if not any(l.startswith('Pod=') for l in lines):
            lines.append('Pod=p.pod')
        hist.append({'p.pod': '[Pod]\n', 'q.pod': '[Pod]\nPodName=other\n', 'c.container': '\n'.join(lines) + '\n',
                     'd.container': '[Container]\nImage=localhost/j\nPod=q.pod\n'})
    filespell.compare(ctx, hist, ['two', 'two-dirs', 'two-dirs-rev', 'dropin'], 'C09 histories of Pod= / StartWithPod= in drop-ins')
    res.samples.append(dict(kind='e2e-tree', files=trees_[0][1], symlinks=trees_[0][2]))
    ctx.log(f'oracle (whole runs with drop-ins): {len(trees_)} trees, {len(res.oracle_failures)} failures in total')
