"""C08 — references to other Quadlet units resolve to real names and add dependencies"""
import os
import core, gen, gen_units as G, canon, refs
from core import hx, unhx

LEAN_MODULE = 'QM.Props.C08Names'
THEOREMS = ['Refine.C08_process_refines', 'Refine.C09_members_order_free', 'Refine.C09_members_exact', 'Refine.C10_independent',
            'Cv.C08_image_reference', 'Cv.C08_image_reference_missing', 'Cv.C08_network_reference', 'Cv.C08_network_reference_missing',
            'Cv.C08_pod_reference', 'Cv.C08_pod_reference_missing', 'Cv.C08_pod_reference_not_a_pod', 'Cv.C08_volume_name_consistent',
            'Cv.C08_network_publishes_what_it_creates', 'Cv.C08_image_publishes_what_it_creates',
            'Cv.C08_process_concrete', 'Cv.C08_processUnits', 'Cv.C08_order_irrelevant', 'Cv.sys_local', 'Cv.convOut_congr', 'Cv.linkOf_congr', 'Cv.reads_lower', 'Cv.link_higher',
            'Cv.C08_priorities', 'Cv.C08_service_suffixes', 'Conform.sorting_priority', 'Conform.service_suffix',
            'Cv.fin_of_mem', 'Cv.C08_table_service', 'Cv.C08_table_missing', 'Cv.C08_table_volume', 'Cv.C08_volume_published_name', 'Cv.C08_table_network', 'Cv.C08_table_image',
            'Cv.C08_table_build', 'Cv.C08_table_container', 'Cv.C08_suffixes', 'Cv.C08_service_name_formula', 'Cv.C08_network_name_formula', 'Cv.C08_build_name_formula']
ASSUMPTIONS = [
    'Refine.* is proved for every system satisfying Refine.Local; Cv.sys_local proves Local for the concrete loop model Cv.sys (the model that answers the convert op): every converter model reads the name table only at its static read set (congruence lemmas for all handlers and the seven converters), whatever it reads is published by a strictly lower priority or never rewritten, a container links only to a .pod, which sorts later. Hypothesis kept: the units have supported extensions (Loadable — what is_extension_supported guarantees at discovery) and distinct file names (first-seen-wins, C13)',
    'the concrete loop model is tied to the code by the convert correspondence on generated unit sets in sorted *and* unsorted orders (Refine.step of Cv.sys is what the driver executes); the converters\' use of the table is therefore modelled, not verified in Rust',
    'the Python functions in harness/refs.py state service name and object name of a unit independently of the code',
]
LEVEL_TEXT = ('Proof (refinement, abstract and concrete) + oracle (naming): Lean theorem C08_process_concrete — for every set of loadable units with distinct '
              'file names and ANY priority-sorted processing order (the sort is unstable), the conversion loop of the model (mutable name table, '
              'pods\' start lists) gives every unit exactly the result of converting it against the final, order-free table and the complete list of '
              'its members; proved by instantiating the abstract refinement theorem (induction over the order with a table invariant, no bound on '
              'the number of units) with Cv.sys_local, which establishes the locality conditions for the real converter models: congruence of every '
              'handler and converter in the table outside its read set, priorities decided from the table extracted from main.rs, extension lemmas. '
              'C08_order_irrelevant: two sorted orders differ at most in the order of a pod\'s members. The model is tied by correspondence of the '
              'step function on unit sets; the property\'s statement itself (object name used, Requires/After on the target\'s service, missing '
              'target fails only the referrer and names the file) is checked on the real converters for random reference graphs.')
LEVEL_NOTE = 'Trusted: Lean kernel; extractor; correspondence of the loop model (Cv.sys / Refine.step) on generated unit sets.'
TECHNIQUE = 'Lean 4 refinement proof (loop with mutable name table ⊑ declarative resolution, all sorted orders) + decide-checked priorities + reference-graph oracle'


def gen_sets(ctx, n):
    rnd = ctx.rnd
    out = []
    for _ in range(n):
        fs = G.unit_set(rnd)
        names = list(fs)
        out.append((names, fs, G.sorted_order(rnd, names, ctx.tables)))
    return out


PREFIXES = ['/q/', '/q/', '/q/', '/home/jdoe@corp.example.com/.config/containers/systemd/', '/srv/a b/', '/etc/containers/systemd/users/1000/', '/x.container.d/@/', '/%h/']


def op_of(names, fs, order, prefix=None):
    # the directory the units are in is an input too (it must decide nothing about names and references): chosen per set, reproducibly
    if prefix is None:
        prefix = PREFIXES[sum(map(len, fs.values())) % len(PREFIXES)]
    return 'convert\t0\t' + (','.join(map(str, order)) or '-') + ''.join(f'\t{hx(prefix + n)}\t{hx(fs[n])}' for n in names)


def corr_ops(ctx):
    rnd = ctx.rnd
    ctx._sets = gen_sets(ctx, 4000 if ctx.thorough else 900)
    ops = [op_of(n, f, o) for n, f, o in ctx._sets]
    # the step function in arbitrary (unsorted) orders too
    for names, fs, order in ctx._sets[: len(ctx._sets) // 3]:
        o2 = list(order)
        rnd.shuffle(o2)
        ops.append(op_of(names, fs, o2))
    return ops


def project(op, out):
    return ' | '.join(canon.canon_result('ok ' + p) for p in out[3:].split(' | ')) if out.startswith('ok ') else out


def nontrivial(op, out):
    return out.count('svc ') >= 2


def check_refs(name, text, by_name, result, all_results):
    """expected reference-derived options and dependencies of one unit"""
    fails = []
    ty = refs.ty_of(name)
    own = refs.parse_simple(text).get(G.SEC[ty], [])
    wanted = []   # (kind, target file, how it must appear)
    if ty == 'container':
        img = refs.last(own, 'Image')
        if img and (img.endswith('.image') or img.endswith('.build')):
            wanted.append(('image', img, None))
        for v in refs.all_values(own, 'Network'):
            n, _, opts = v.partition(':')
            if n.endswith('.network') or n.endswith('.container'):
                wanted.append(('network', n, opts))
        for v in refs.all_values(own, 'Volume'):
            src = v.split(':')[0]
            if src.endswith('.volume') and ':' in v:   # a value without ':' is a bare container path (anonymous volume), not a reference
                wanted.append(('volume', src, v))
        for v in refs.all_values(own, 'Mount'):
            for tok in v.split(','):
                if tok.startswith('source=') or tok.startswith('src='):
                    src = tok.split('=', 1)[1]
                    if src.endswith('.volume') or (src.endswith('.image') and 'type=image' in v):
                        wanted.append(('mount', src, v))
    elif ty == 'volume':
        img = refs.last(own, 'Image')
        if refs.last(own, 'Driver') == 'image' and img and (img.endswith('.image') or img.endswith('.build')):
            wanted.append(('image', img, None))
    elif ty in ('build', 'kube', 'pod'):
        for v in refs.all_values(own, 'Network'):
            n, _, opts = v.partition(':')
            if n.endswith('.network') or n.endswith('.container'):   # (joining a container's network is open to every unit type with a Network= key)
                wanted.append(('network', n, opts))
        if ty in ('build', 'pod'):
            for v in refs.all_values(own, 'Volume'):
                src = v.split(':')[0]
                if src.endswith('.volume') and ':' in v:
                    wanted.append(('volume', src, v))
    # a Volume= whose name merely ends like a unit file of another type is a named volume: passed on as written, no dependency, no error about it
    for v in refs.all_values(own, 'Volume') if ty in ('container', 'pod', 'build') else []:
        if v.startswith('lookalike.'):
            if result[0] == 'svc':
                ex = ' '.join(x for k, x in result[2].get('Service', []) if k.startswith('Exec'))
                if v not in ex or any('lookalike' in x for k, x in result[2].get('Unit', []) if k in ('Requires', 'After')):
                    fails.append(f'Volume={v} names a volume, not a unit: it is passed on as written and adds no dependency: {ex[-300:]}')
            elif result[0] == 'err' and 'lookalike.' in result[2]:
                fails.append(f'Volume={v} names a volume, not a unit: no error about it: {result[2]!r}')
    if not wanted:
        return fails
    missing = [w for w in wanted if w[1] not in by_name]
    if result[0] == 'err':
        if missing and result[1] in ('SourceNotFound', 'ImageNotFound', 'InternalQuadletError', 'PodNotFound'):
            if not any(m[1] in result[2] for m in missing):
                fails.append(f'the error must name a missing file of {[m[1] for m in missing]}: {result[2]!r}')
        import re as _re
        named = [w for w in wanted if _re.search(r'(?<![\w.@-])' + _re.escape(w[1]) + r'(?![\w-])', result[2]) and w[1] != name]   # (the file name as a whole word: b.container is not named by an error about db.container)
        if not missing and result[1] in ('InvalidResourceNameIn', 'SourceNotFound', 'ImageNotFound') and named \
                and all(refs.object_name(w[1], by_name[w[1]]) not in (None, '') for w in named) \
                and all(all_results.get(w[1]) is not None and all_results[w[1]][0] == 'svc' for w in named):
            fails.append(f'the unit it is rejected for ({named[0][1]}) exists, converts and has a name: {result[2]!r}')
        # … whatever name the message carries: every file this unit refers to exists, converts and has a name, so nothing it asks for can be
        # "not found" (a resolved object name is a podman name — it is not looked up again, however it ends)
        if not fails and not missing and wanted and result[1] in ('InvalidResourceNameIn', 'SourceNotFound', 'ImageNotFound') \
                and all(w[1] in by_name and refs.object_name(w[1], by_name[w[1]]) not in (None, '') for w in wanted) \
                and all(all_results.get(w[1]) is not None and all_results[w[1]][0] == 'svc' for w in wanted):
            fails.append(f'rejected with {result[1]} although every unit it refers to ({sorted(set(w[1] for w in wanted))}) exists, converts and has a name: {result[2]!r}')
        return fails   # failed for another reason (not this property)
    if result[0] != 'svc':
        return fails
    if missing:
        fails.append(f'a reference to the missing file {missing[0][1]} must fail the unit')
        return fails
    unit_sec = result[2].get('Unit', [])
    execs = ' '.join(v for k, v in result[2].get('Service', []) if k.startswith('Exec'))
    for kind, target, how in wanted:
        ttext = by_name[target]
        svc = refs.service_name(target, ttext) + '.service'
        for dep in ('Requires', 'After'):
            if (dep, svc) not in unit_sec and (dep, '"' + svc + '"') not in unit_sec and not any(k == dep and v.replace('\\x20', ' ').strip('"') == svc for k, v in unit_sec):
                fails.append(f'[Unit] must gain {dep}={svc} for the reference to {target}: {unit_sec}')
        obj = refs.object_name(target, ttext)
        if obj is None or obj == '':
            continue   # the target has no resolvable name: outside the statement (the unit fails or the target failed)
        tres = all_results.get(target)
        if refs.ty_of(target) in ('volume', 'network', 'image') and tres is not None and tres[0] != 'svc':
            continue   # the target did not get far enough to publish its name
        if obj not in execs and obj.replace(' ', '\\x20') not in execs:
            fails.append(f'the command must use the object name {obj!r} that {target} creates: {execs[:400]}')
        # … once per reference (a reference that silently vanishes from the command is not resolved either)
        nref = sum(1 for w in wanted if w[1] == target)
        if nref > 1 and max(execs.count(obj), execs.count(obj.replace(' ', '\\x20'))) < nref:
            fails.append(f'{nref} references to {target}, but its object name {obj!r} occurs {execs.count(obj)} time(s) in the command: {execs[:400]}')
        # … for *every* reference to it: no option may still carry the file name (a second reference to the same unit, a
        # reference next to a hand-written Requires=)
        for raw in (f' {target}:', f'source={target}', f'src={target}', f'--network {target}', f'image={target}'):   # (a bare `-v x.volume` without ':' is a container path, not a reference)
            if raw in ' ' + execs + ' ' and obj != target:
                fails.append(f'the command still carries the unresolved reference {raw.strip()!r} (object name {obj!r}): {execs[:400]}')
                break
    return fails


def oracle(ctx):
    res = ctx.res
    sets = getattr(ctx, '_sets', None) or gen_sets(ctx, 900)
    # directed: the object name a unit creates ends like a Quadlet file of some type (with and without a unit of that very name in the set)
    sets = list(sets)
    for suf in ('.image', '.build', '.volume', '.network', '.container'):
        for twin in (False, True):
            fs = {'b.build': f'[Build]\nImageTag=localhost/base{suf}\nFile=/f\n', 'i.image': f'[Image]\nImage=quay.io/x/y\nImageTag=localhost/pulled{suf}\n',
                  'v.volume': f'[Volume]\nVolumeName=data{suf}\n', 'n.network': f'[Network]\nNetworkName=front{suf}\n',
                  'c1.container': '[Container]\nImage=b.build\nVolume=v.volume:/d\nNetwork=n.network\n',
                  'c2.container': '[Container]\nImage=i.image\nMount=type=volume,source=v.volume,dst=/m\n',
                  'iv.volume': '[Volume]\nDriver=image\nImage=b.build\n'}
            if twin and suf in ('.image', '.volume', '.network'):
                fs['base' + suf if suf == '.image' else ('data' + suf if suf == '.volume' else 'front' + suf)] = \
                    {'.image': '[Image]\nImage=quay.io/other/os\n', '.volume': '[Volume]\nVolumeName=other\n', '.network': '[Network]\nNetworkName=other\n'}[suf]
            names = list(fs)
            sets.append((names, fs, G.sorted_order(ctx.rnd, names, ctx.tables)))
    ops = [op_of(n, f, o) for n, f, o in sets]
    io = ctx.impl(ops)
    for (names, fs, order), op, a in zip(sets, ops, io):
        res.oracle_evals += 1
        rs = canon.parse_convert(a)
        if len(rs) != len(order):
            res.oracle_failures.append(dict(op=op, input=fs, impl_output=core.dec_line(a)[:500], oracle_expectation='one result per unit'))
            continue
        results = {names[i]: r for i, r in zip(order, rs)}
        for n in names:
            for f in check_refs(n, fs[n], fs, results[n], results):
                res.oracle_failures.append(dict(op=op, input=dict(unit=n, files=fs), impl_output=str(results[n])[:700], oracle_expectation=f))
    # the same sets through the real loader and main loop, with the tail of some files (naming keys, references) moved into
    # drop-ins: the name a referrer sees is the name the unit creates after its drop-ins are merged
    import filespell
    filespell.compare(ctx, [fs for _, fs, _ in sets[:600 if ctx.thorough else 150]], filespell.DROPIN_WAYS, 'C08 names and references in drop-ins')
    # "a reference to a file that does not exist fails ONLY the referring unit, with an error naming the missing file": the whole run,
    # every kind of reference in every type of referrer, beside valid units of all seven types (some converted before, some after it)
    import e2e, shutil as _sh
    BY = {'a-img.image': '[Image]\nImage=quay.io/x/y\n', 'a-vol.volume': '[Volume]\n', 'a-net.network': '[Network]\n', 'a-bld.build': '[Build]\nImageTag=localhost/t\nFile=/f\n',
          'a-ctr.container': '[Container]\nImage=localhost/a\n', 'zz-ctr.container': '[Container]\nImage=localhost/z\n', 'zz-kube.kube': '[Kube]\nYaml=/k.yaml\n', 'zz-pod.pod': '[Pod]\n'}
    DANGLING = [('ref.container', '[Container]\nImage=localhost/i\nNetwork=gone.network\n', 'gone.network'), ('ref.container', '[Container]\nImage=localhost/i\nNetwork=gone.container\n', 'gone.container'),
                ('ref.container', '[Container]\nImage=localhost/i\nNetwork=gone.network:ip=10.0.0.2\n', 'gone.network'), ('ref.container', '[Container]\nImage=localhost/i\nVolume=gone.volume:/d\n', 'gone.volume'),
                ('ref.container', '[Container]\nImage=localhost/i\nMount=type=volume,source=gone.volume,dst=/m\n', 'gone.volume'), ('ref.container', '[Container]\nImage=localhost/i\nMount=type=image,source=gone.image,dst=/m\n', 'gone.image'),
                ('ref.container', '[Container]\nImage=gone.image\n', 'gone.image'), ('ref.container', '[Container]\nImage=gone.build\n', 'gone.build'), ('ref.container', '[Container]\nImage=localhost/i\nPod=gone.pod\n', 'gone.pod'),
                ('ref.volume', '[Volume]\nDriver=image\nImage=gone.image\n', 'gone.image'), ('ref.pod', '[Pod]\nNetwork=gone.network\n', 'gone.network'), ('ref.pod', '[Pod]\nVolume=gone.volume:/d\n', 'gone.volume'),
                ('ref.kube', '[Kube]\nYaml=/k.yaml\nNetwork=gone.network\n', 'gone.network'), ('ref.build', '[Build]\nImageTag=localhost/r\nFile=/f\nNetwork=gone.network\n', 'gone.network'),
                ('ref.build', '[Build]\nImageTag=localhost/r\nFile=/f\nVolume=gone.volume:/d\n', 'gone.volume'), ('aa-ref.container', '[Container]\nImage=localhost/i\nNetwork=gone.network\n', 'gone.network')]

    def run_d(c):
        name, text, missing = c
        base = e2e.fresh_dir()
        e2e.write_tree(base, {'src/' + n: t for n, t in dict(BY, **{name: text}).items()})
        outs = []
        for dry in (True, False):
            rc, so, se = e2e.run_binary((['--dry-run'] if dry else []) + ['--no-kmsg-log', os.path.join(base, 'out')], os.path.join(base, 'src'))
            made = set(os.path.basename(p) for p, _ in e2e.split_dry_run(so)[1]) if dry else set(os.listdir(os.path.join(base, 'out')) if os.path.isdir(os.path.join(base, 'out')) else [])
            outs.append((dry, rc, se, made))
        _sh.rmtree(base, ignore_errors=True)
        return outs
    want_svcs = {'a-img-image.service', 'a-vol-volume.service', 'a-net-network.service', 'a-bld-build.service', 'a-ctr.service', 'zz-ctr.service', 'zz-kube.service', 'zz-pod-pod.service'}
    for (name, text, missing), outs in zip(DANGLING, e2e.pmap(run_d, DANGLING)):
        for dry, rc, se, made in outs:
            res.oracle_evals += 1
            errs = [l for l in se.split('\n') if 'ERROR' in l]
            fails = []
            if rc != 1:
                fails.append(f'exit status {rc}, expected 1')
            if not any(missing in l and name in l for l in errs):
                fails.append(f'no error line names the missing file {missing} (and the referring unit {name}): {errs[:3]}')
            if want_svcs - made:
                fails.append(f'units that do not refer to {missing} were not generated: {sorted(want_svcs - made)}')
            if any(m.startswith(name.split(".")[0] + '.') or m.startswith(name.split(".")[0] + '-') for m in made):
                fails.append(f'a service was generated for the referring unit {name}')
            for f in fails:
                res.oracle_failures.append(dict(op='e2e ' + ('--dry-run' if dry else 'normal run'), input=dict(referrer=name, unit=text, beside=sorted(BY)),
                                                impl_output=dict(exit=rc, errors=errs[:3], generated=sorted(made)), oracle_expectation=f))
    res.samples.append(dict(kind='oracle-case', files=sets[0][1], order=[sets[0][0][i] for i in sets[0][2]]))
    ctx.log(f'oracle: {res.oracle_evals} evaluations, {len(res.oracle_failures)} failures')
