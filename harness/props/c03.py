"""C03 — unit files parse losslessly and independently of their spelling"""
import json, os
import core, gen, gen_units as G, canon
from core import hx, unhx

LEAN_MODULE = 'QM.Props.C03'
THEOREMS = ['Parse.C03_parse_render', 'Parse.C03_spelling_independent', 'Parse.C03_repeated_headers', 'Parse.C03_counterexample', 'Parse.C03_text_before_first_header_rejected', 'Parse.parseUnit_skip_ws', 'Parse.parseUnit_skip_comment', 'Parse.C03_continuation_into_empty_line', 'Parse.C03_continuation_comment_then_empty_line',
            'Conform.line_continuation_replacement', 'Conform.pv_joins_with_the_constant']
ASSUMPTIONS = [
    'Parse.parse is a hand-written character-level model of parser.rs (+ add_raw validation); tied to SystemdUnit::load_from_str by the parse correspondence on renderings, mutated renderings, the repository\'s case files and random text (full ordered dump or error)',
    'theorem renderings: section headers first (no entries before the first header), every line newline-terminated; lines before the first section and a missing final newline are covered by the oracle only',
    'line/column numbers of parse errors are not modelled (error vs. success is compared)',
    'known finding KF-C03-1: a continued line that starts with "[" ends the value (a pinned test demands it); renderings exclude it (contOK)',
]
LEVEL_TEXT = ('Proof: Lean theorem C03_parse_render — for every rendering of a unit (any interleaving of comment and blank lines, indentation, spacing '
              'around "=", trailing white space, values broken by backslash-newline at arbitrary places with spaces after the backslash and comment '
              'lines in between, repeated section headers) the parser model returns exactly the denoted unit, in file order; hence two renderings of '
              'the same content parse identically (C03_spelling_independent). Induction over sections, entries and fragments, no size bound. '
              'KF-C03-1 is proved as a theorem about the model and excluded by an explicit hypothesis. Model tied by correspondence; an independent '
              'Python renderer is the oracle on the real parser, and pairs of renderings are converted by the real converters and compared.')
LEVEL_NOTE = 'Trusted: Lean kernel; correspondence on generated renderings and malformed text; Python renderer/eraser as independent statement of the file format.'
TECHNIQUE = 'Lean 4 proof (parse ∘ render = erase, by induction) + correspondence + independent renderer oracle'

WS = ' \t\n\x0b\x0c\r\x85\xa0 ' + ''.join(chr(c) for c in range(0x2000, 0x200b)) + '    　'
FRAG_ATOMS = ['a', 'b c', 'x=y', '"q r"', "'s'", '\\n', '\\\\', '\\x41', 'é', '#h', ';s', '[z]', '%h', ' ', '  ', '\t', '-', 'v1', '\xa0', 'a\\tb',
              # quotes that are never closed (the reader is lenient there, as systemd is), at the start of a word and inside one
              " '90s", ' "open', 'it\'s', '5"', ' " rails']


def trim_end(s):
    while s and s[-1] in WS:
        s = s[:-1]
    return s


def gen_frag(rnd, first, cont):
    """text of one fragment; `cont` = it follows a continuation (must be non-empty and not start with # ; [ or backslash-free issues)"""
    n = rnd.randint(0 if not cont else 1, 4)
    t = ''.join(rnd.choice(FRAG_ATOMS) for _ in range(n))
    if first:
        t = t.lstrip(' \t')
    if cont:
        while t and t[0] in '#;[':
            t = t[1:]
        if t == '':
            t = 'c'
    return t


def gen_model(rnd):
    secs = []
    for _ in range(rnd.randint(1, 4)):
        name = rnd.choice(['A', 'Sec B', 'X-1', 'Container', 'A', 'Séc ü'])
        entries = []
        for _ in range(rnd.randint(0, 4)):
            key = rnd.choice(['K', 'Key-2', 'k9', 'K'])
            nfr = rnd.choice([1, 1, 1, 2, 3])
            frags = [gen_frag(rnd, i == 0, i > 0) for i in range(nfr)]
            entries.append((key, frags))
        secs.append((name, entries))
    return secs


CMT_TEXT = ['c', ' d', ' [not a section]', 'k=v', ' für Notfälle', ' 日本語', 'é', ' 𝄞𝄞 x', ' — dash', ' Länge ü', 'ß', ' a\u00a0b', '']


def cmt(rnd, cont=False):
    """a comment line: # or ;, any text incl. multi-byte characters, optionally ending in a backslash (which does not continue it)"""
    return rnd.choice(['', '', '\t', ' ']) + rnd.choice('#;') + rnd.choice(CMT_TEXT) + rnd.choice(['', '', ' ', '\\' if cont else '']) + '\n'


def render(rnd, secs, plain=False):
    out = ''
    if not plain:
        for _ in range(rnd.randint(0, 2)):
            out += rnd.choice(['# top comment\n', '\n', '; x\\\n', '  \n', cmt(rnd, True), cmt(rnd)])
    for name, entries in secs:
        out += f'[{name}]\n'
        for key, frags in entries:
            if not plain:
                for _ in range(rnd.randint(0, 2)):
                    out += rnd.choice(['#c\n', '; d\n', '\n', '  \n', '\t# e\n', '# [not a section]\n', '#k=v\\\n', cmt(rnd, True), cmt(rnd), cmt(rnd)])
            ind = '' if plain else rnd.choice(['', '', ' ', '\t', '  '])
            ws1 = '' if plain else rnd.choice(['', '', ' ', '  ', '\t'])
            ws2 = '' if plain else rnd.choice(['', '', ' ', '\t '])
            out += ind + key + ws1 + '=' + ws2
            for i, f in enumerate(frags):
                out += f
                if i + 1 < len(frags):
                    out += '\\' + ('' if plain else ' ' * rnd.choice([0, 0, 1, 3])) + '\n'
                    if not plain:
                        for _ in range(rnd.randint(0, 2)):
                            out += rnd.choice(['#c\n', ';d \\\n', '# [x]\n', cmt(rnd, True).lstrip(' \t'), cmt(rnd).lstrip(' \t')])
            if not plain and rnd.random() < 0.1:
                # a backslash that continues into nothing: the next line is empty, the value ends there (and what follows is its own entry)
                out += ' \\' + ' ' * rnd.choice([0, 0, 2]) + '\n' + '\n' * rnd.choice([1, 1, 2, 3])
                continue
            out += ('' if plain else rnd.choice(['', '', ' ', '\t', '  '])) + '\n'
    if not plain and out.endswith('\n') and rnd.random() < 0.3:
        out = out[:-1]
    return out


def erase(secs):
    """the plain unit a model denotes: same-named sections merged in first-appearance order"""
    order, by = [], {}
    for name, entries in secs:
        if name not in by:
            by[name] = []
            order.append(name)
        for key, frags in entries:
            by[name].append((key, trim_end(' '.join(frags))))
    return [(n, by[n]) for n in order]


def dump(unit):
    t = []
    for n, es in unit:
        t.append('S' + hx(n))
        for k, v in es:
            t += ['K' + hx(k), 'V' + hx(v)]
    return 'ok ' + ' '.join(t) if t else 'ok '


def valid_value(v):
    # stay inside values the unquoter accepts (checked by the implementation itself through the unquote op)
    return True


def corr_ops(ctx):
    rnd = ctx.rnd
    n = 6000 if ctx.thorough else 1500
    ctx._c03 = []
    ops = []
    for _ in range(n):
        m = gen_model(rnd)
        text = render(rnd, m)
        ctx._c03.append((m, text))
        ops.append('parse\t' + hx(text))
    # malformed stream: byte-level mutations of renderings and random text
    PAL = ['[', ']', 'A', 'k', '=', ' ', '\t', '\n', '\n', '\\', '#', ';', 'v', '-', '"', '\r', "'", 'x', '0']
    for m, text in ctx._c03[: n // 2]:
        t = list(text)
        for _ in range(rnd.randint(1, 3)):
            if t and rnd.random() < 0.5:
                del t[rnd.randrange(len(t))]
            else:
                t.insert(rnd.randint(0, len(t)), rnd.choice(PAL))
        ops.append('parse\t' + hx(''.join(t)))
    for _ in range(n):
        ops.append('parse\t' + hx(gen.rs(rnd, 30, PAL)))
    # the repository's own case files
    cdir = os.path.join(core.REPO, 'tests', 'cases')
    if os.path.isdir(cdir):
        for fn in sorted(os.listdir(cdir)):
            p = os.path.join(cdir, fn)
            if os.path.isfile(p):
                try:
                    ops.append('parse\t' + hx(open(p, encoding='utf-8').read()))
                except Exception:
                    pass
    return ops


def project(op, out):
    return 'err' if out.startswith('err') else out


def nontrivial(op, out):
    return out.startswith('ok S') and ' K' in out


def oracle(ctx):
    res = ctx.res
    rnd = ctx.rnd
    pairs = getattr(ctx, '_c03', None) or [(m, render(rnd, m)) for m in (gen_model(rnd) for _ in range(1500))]
    ops = ['parse\t' + hx(t) for _, t in pairs]
    io = ctx.impl(ops)
    # which joined values does the implementation's own unquoter accept?  (otherwise load fails, by design)
    vals = sorted({v for m, _ in pairs for _, es in erase(m) for _, v in es})
    # (asked of the model of the unquoter — proved against the statements of C04 — not of the code under test; of the code only when the
    # model is not available)
    uq = dict(zip(vals, (ctx.model if ctx.st.model_ok else ctx.impl)(['unquote\t' + hx(v) for v in vals])))
    for (m, text), op, a in zip(pairs, ops, io):
        res.oracle_evals += 1
        want_unit = erase(m)
        if any(uq[v] == 'err' for _, es in want_unit for _, v in es):
            if not a.startswith('err'):
                res.oracle_failures.append(dict(op=op, input=text, impl_output=core.dec_line(a)[:500], oracle_expectation='a value the unquoter rejects must fail the load'))
            continue
        want = dump(want_unit)
        if a.strip() != want.strip():
            res.oracle_failures.append(dict(op=op, input=text, impl_output=core.dec_line(a)[:800],
                                            oracle_expectation='the unit the rendering spells out: ' + core.dec_line(want)[:800]))
    # two spellings of the same content generate identical services
    cases = []
    for _ in range(400 if ctx.thorough else 100):
        ty = rnd.choice(G.TYPES)
        lines = [l for l in G.unit(rnd, ctx.tables, ty, near_miss=0).split('\n') if l]
        secs, cur = [], None
        for l in lines:
            if l.startswith('['):
                cur = (l[1:-1], [])
                secs.append(cur)
            elif '=' in l and cur is not None:
                k, v = l.split('=', 1)
                # break the value at a random blank, if any
                parts = v.split(' ')
                if len(parts) > 1 and rnd.random() < 0.5 and all(p and p[0] not in '#;[' for p in parts[1:]) and '"' not in v and "'" not in v:
                    i = rnd.randrange(1, len(parts))
                    cur[1].append((k, [' '.join(parts[:i]), ' '.join(parts[i:])]))
                else:
                    cur[1].append((k, [v]))
        # section splitting: split one section into two headers
        if secs and len(secs[0][1]) > 1 and rnd.random() < 0.5:
            n0, es = secs[0]
            i = rnd.randrange(1, len(es))
            secs2 = [(n0, es[:i])] + secs[1:] + [(n0, es[i:])] if len(secs) == 1 else [(n0, es[:i]), (n0, es[i:])] + secs[1:]
        else:
            secs2 = secs
        name = '/q/' + G.file_name(rnd, ty)
        cases.append((name, render(rnd, secs, plain=True), render(rnd, secs2)))
    o1 = ctx.impl([f'convert\t0\t0\t{hx(n)}\t{hx(a)}' for n, a, b in cases])
    o2 = ctx.impl([f'convert\t0\t0\t{hx(n)}\t{hx(b)}' for n, a, b in cases])
    p1 = ctx.impl(['parse\t' + hx(a) for n, a, b in cases])
    p2 = ctx.impl(['parse\t' + hx(b) for n, a, b in cases])
    for (n, a, b), x, y, u, v in zip(cases, o1, o2, p1, p2):
        res.oracle_evals += 1
        if u != v:
            continue  # the two texts do not denote the same unit (e.g. joined fragments differ by trailing blanks): not a pair
        if canon.canon_result(x) != canon.canon_result(y):
            res.oracle_failures.append(dict(op=f'convert\t0\t0\t{hx(n)}\t{hx(b)}', input=dict(spelling1=a, spelling2=b),
                                            impl_output=core.dec_line(y)[:600], oracle_expectation='same service as for spelling1: ' + core.dec_line(x)[:600]))
    # … whatever the size of what is ignored: the same unit as a real file with comment blocks, blank lines or one comment
    # line beyond 64 KiB and beyond 1 MiB (through load_from_path, which the text-level operations do not use)
    import filespell
    ok = {b for (n, a, b), u in zip(cases, p1) if u.startswith('ok')}
    big = [{os.path.basename(n): a} for n, a, b in cases if b in ok][:28 if ctx.thorough else 10]
    filespell.compare(ctx, big, filespell.BIG_WAYS, 'C03 long files')
    # known finding KF-C03-1
    for k in ctx.known:
        ex = json.load(open(os.path.join(core.VERIF, 'known_findings.d', k['example'])))
        a = ctx.impl([ex['op']])[0]
        if a == ex['impl_output_deviating']:
            res.known_hits[k['id']] = k['what']
    res.samples.append(dict(kind='oracle-case', rendering=pairs[1][1], denotes=str(erase(pairs[1][0]))[:300]))
    ctx.log(f'oracle: {res.oracle_evals} evaluations, {len(res.oracle_failures)} failures')
