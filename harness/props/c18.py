"""C18 — failures to write output are reported, never silently ignored"""
import subprocess, os, re, shutil
import core, gen, e2e
from core import hx, unhx

LEAN_MODULE = 'QM.Props.C18Run'
THEOREMS = ['Wr.C18_reported', 'Wr.C18_ok', 'Wr.C18_loop_reported', 'Wr.C18_others_written', 'Wr.C18_exit_zero_iff', 'Wr.C18_pinned_counterexample',
            'Cv.C18_run_failed_write_reported', 'Cv.C18_run_not_enabled', 'Cv.C18_run_others_written', 'Cv.C18_run_no_outdir', 'Cv.process_effs', 'Cv.process_errs']
ASSUMPTIONS = [
    'Cv.process (QM/Run.lean) is the model of the whole of process() — loading, drop-ins, output directory, conversion loop, write or print, enable — with the file system\'s answers as a parameter; the C18_run_* theorems are about it, and it is compared with real dry and normal runs on generated trees with injected faults (directory or /dev/full in the place of a service file, file in the place of the output directory): exit status, errors with paths, written files, links',
    'Wr.generate models generate_service_file over BufWriter\'s documented contract (buffer, spill, write-through, explicit flush; the flush on drop discards its error) with a sink that fails after a byte budget; std::io and the kernel\'s error sources are not verified',
    'tie: real runs of the binary with injected faults at every unit position of 1-4-unit runs: the service path pre-seeded as a symlink to /dev/full (write/flush fault, files below and above the 8 KiB buffer), as a directory (create fault), and an output directory that cannot be created; the model\'s verdict for the same piece sizes is compared with what the binary did',
]
LEVEL_TEXT = ('Proof (writer and loop model) + fault-injection runs: Lean theorems — whenever the sink cannot take the whole file, wherever the failing write '
              'falls (spill, write-through, or only the final flush), the repaired generate_service_file reports an error (C18_reported, for every '
              'buffer capacity, piece list and byte budget) and never when everything fits (C18_ok); in the write loop a failing unit at any position is '
              'logged, makes the exit status 1 and is neither written nor enabled, while every other unit is written and enabled, and the exit status is 0 '
              'exactly when nothing failed (C18_loop_reported, C18_others_written, C18_exit_zero_iff; induction over the run). Partial with respect to the '
              'runtime: BufWriter and the file system are modelled from their contracts and tied by fault-injection runs of the real binary.')
LEVEL_NOTE = 'Trusted: Lean kernel; the model of BufWriter/File from their documentation; the fault-injection runs for the tie (faults available without privileges: /dev/full, directory in the way, file in the way of the output directory).'
TECHNIQUE = 'Lean 4 proofs over a fault-injecting writer model and the write loop + real fault-injection runs at every unit position'


def unit_text(rnd, big):
    t = '[Container]\nImage=localhost/i\n'
    if big:
        t += ''.join(f'Environment=VAR{i}={"x" * 120}\n' for i in range(80))
    t += '[Install]\nWantedBy=default.target\n'
    return t


CREATE_FAULTS = ['dangling', 'loop', 'notdir', 'toolong', 'procfile', 'eacces']


def gen_case(rnd):
    n = rnd.randint(1, 4)
    names = rnd.sample(['a', 'b', 'c', 'web', 'db'], n)
    big = {nm: rnd.random() < 0.3 for nm in names}
    i = rnd.randrange(n)
    # create faults in every error kind that needs no privileges (EISDIR, ENOENT, ELOOP, ENOTDIR, ENAMETOOLONG, EACCES/EPERM on /proc)
    fault = rnd.choice(['devfull', 'dir', 'none', 'outdir', 'fsize', 'fsize'] + CREATE_FAULTS)
    # the length of the paths is part of the environment: an output directory whose path alone is longer than 256 / 1024 bytes
    c = dict(names=names, big=big, idx=i, fault=fault, longout=rnd.choice([0, 0, 0, 2, 3, 9]))
    # the logger is part of the path an error takes: an unprivileged generator cannot open /dev/kmsg and falls back to stderr —
    # with the default logging (no --no-kmsg-log) the very first message of the run is the one that finds that out
    c['unpriv'] = fault == 'eacces' or (fault in ('dir', 'dangling', 'notdir') and rnd.random() < 0.4)
    c['kmsg'] = c['unpriv'] and rnd.random() < 0.6
    if fault == 'fsize':
        # a byte budget per file: the victim is the only large unit, the budget lies between the small services and the victim
        c['big'] = {nm: nm == names[i] for nm in names}
        c['limit'] = rnd.choice([1024, 1500, 4096, 8192, 8193, 10000])
    return c


def run(case_rnd):
    case, seed = case_rnd
    import random
    rnd = random.Random(seed)
    base = e2e.fresh_dir()
    as_uid, binary = None, None
    if case.get('unpriv', case['fault'] == 'eacces'):
        # a permission fault needs an unprivileged generator: staged below /tmp with open permissions and a copy of the binary
        import tempfile
        shutil.rmtree(base, ignore_errors=True)
        base = tempfile.mkdtemp(prefix='qverif-c18-', dir='/tmp')
        os.chmod(base, 0o755)
        binary = os.path.join(base, 'quadlet-rs')
        shutil.copy(core.BIN, binary)
        as_uid = 1001
    os.makedirs(os.path.join(base, 'src'))
    for nm in case['names']:
        with open(os.path.join(base, 'src', nm + '.container'), 'w') as f:
            f.write(unit_text(rnd, case['big'][nm]))
    out = os.path.join(base, *(['d' * 110 + str(k) for k in range(case.get('longout', 0))]), 'out')
    victim = case['names'][case['idx']]
    if case['fault'] == 'outdir':
        with open(os.path.join(base, 'blocker'), 'w') as f:
            f.write('x')
        out = os.path.join(base, 'blocker', 'out')
    else:
        os.makedirs(out)
        if case['fault'] == 'devfull':
            os.symlink('/dev/full', os.path.join(out, victim + '.service'))
        elif case['fault'] == 'dir':
            os.makedirs(os.path.join(out, victim + '.service'))
        elif case['fault'] == 'eacces':
            os.chmod(out, 0o777)
            with open(os.path.join(out, victim + '.service'), 'w') as f:
                f.write('owned by root, read-only\n')
            os.chmod(os.path.join(out, victim + '.service'), 0o444)
        elif case['fault'] in CREATE_FAULTS:
            target = {'dangling': os.path.join(base, 'no-such-dir', 'x.service'), 'loop': victim + '.service', 'notdir': '/dev/null/x.service',
                      'toolong': os.path.join(base, 'n' * 300), 'procfile': '/proc/version'}[case['fault']]
            os.symlink(target, os.path.join(out, victim + '.service'))
    if as_uid is not None:
        subprocess.run(['chmod', '-R', 'a+rX', os.path.join(base, 'src')])
    if as_uid is not None and os.path.isdir(out):
        os.chmod(out, 0o777)   # (the directory only: the fault inside it keeps its permissions)
    rc, so, se = e2e.run_binary(([] if case.get('kmsg') else ['--no-kmsg-log']) + [out], os.path.join(base, 'src'), fsize_limit=case.get('limit'), as_uid=as_uid, binary=binary)
    snap = e2e.snapshot(out) if os.path.isdir(out) else {}
    # what would have been written (piece sizes) from a dry run
    rc2, so2, se2 = e2e.run_binary(['--dry-run', '--no-kmsg-log', out], os.path.join(base, 'src'))
    printed, _ = e2e.split_dry_run(so2)
    shutil.rmtree(base, ignore_errors=True)
    return dict(exit=rc, stderr=se, snap=snap, out=out, printed={os.path.basename(k): v for k, v in printed.items()})


def correspond(ctx):
    res = ctx.res
    rnd = ctx.rnd
    n = 400 if ctx.thorough else 100
    cases = [gen_case(rnd) for _ in range(n)]
    outs = e2e.pmap(run, [(c, rnd.randrange(10 ** 9)) for c in cases])
    ctx._c18 = list(zip(cases, outs))
    # the writer model on the same piece sizes: would generate_service_file report an error?
    lines, metas = [], []
    for c, o in ctx._c18:
        if c['fault'] not in ('devfull', 'none', 'fsize'):
            continue
        victim = c['names'][c['idx']] + '.service'
        text = o['printed'].get(victim)
        if text is None:
            continue
        header = len('# Automatically generated by ' + core.BIN + '\n')
        sizes = [header] + [len((l + '\n').encode()) for l in text.split('\n')[:-1]]
        lines.append('gen_write\t' + ('0' if c['fault'] == 'devfull' else (str(c['limit']) if c['fault'] == 'fsize' else 'none')) + '\t8192\t' + ','.join(map(str, sizes)))
        metas.append((c, o, victim))
    mo = ctx.model(lines)
    for (c, o, victim), line, b in zip(metas, lines, mo):
        res.corr_ops += 1
        res.corr_by_op['gen_write'] = res.corr_by_op.get('gen_write', 0) + 1
        impl_ok = not any('ERROR' in l and f'/{victim}' in l for l in o['stderr'].split('\n'))
        res.corr_nontrivial.add(line)
        if b != ('ok true' if impl_ok else 'ok false'):
            if len(res.corr_disagreements) < 10:
                res.corr_disagreements.append(dict(op=line, op_readable=dict(case=c), impl=f'write reported ok={impl_ok}; stderr {e2e.error_lines(o["stderr"])[:3]}', model=b))
    res.samples.append(dict(kind='fault-case', case=cases[0]))
    ctx.log(f'correspondence (writer model vs fault-injection runs): {len(lines)} cases, {len(res.corr_disagreements)} disagreements')
    # the model of the whole run against dry and normal runs, half of them with a fault
    import runcorr
    runcorr.correspond_process(ctx, 240 if ctx.thorough else 60)


def oracle(ctx):
    core.io_inventory_obligation(ctx.res, ('write',))
    res = ctx.res
    # (T1) control flow of main.rs (continue / break / return / exit / `?` / dry-run guards / error pushes): inventory regenerated
    # from the source vs the reviewed one — the loop policy the run-level models assume
    import sys as _sys, json as _json
    _rc, _o, _e = core.sh([_sys.executable, os.path.join(core.VERIF, 'tools', 'flow_sites.py'), core.REPO, os.path.join(core.BUILD, 'flow_sites.json')])
    _have = {(x['fn'], x['kind'], x['stmt'], x['n']) for x in (_json.load(open(os.path.join(core.BUILD, 'flow_sites.json'))) if _rc == 0 else [])}
    _spec = {(x['fn'], x['kind'], x['stmt'], x['n']) for x in _json.load(open(os.path.join(core.VERIF, 'spec', 'flow_sites.json')))}
    _diff = sorted(_have ^ _spec)
    res.extra_obligations.append(('control-flow inventory of main.rs matches the reviewed one (spec/flow_sites.json)', _rc == 0 and not _diff,
                                  'statements that differ: ' + '; '.join(f'{d[0]}: {d[2][:70]}' for d in _diff[:6])))
    pairs = getattr(ctx, '_c18', None)
    if pairs is None:
        rnd = ctx.rnd
        cases = [gen_case(rnd) for _ in range(100)]
        pairs = list(zip(cases, e2e.pmap(run, [(c, rnd.randrange(10 ** 9)) for c in cases])))
    for c, o in pairs:
        res.oracle_evals += 1
        fails = []
        victim = c['names'][c['idx']] + '.service'
        if c['fault'] == 'none':
            if o['exit'] != 0:
                fails.append(f'no fault injected but exit status {o["exit"]}: {e2e.error_lines(o["stderr"])}')
        else:
            if o['exit'] != 1:
                fails.append(f'fault {c["fault"]} on {victim}: exit status must be 1, is {o["exit"]}')
        if c['fault'] == 'outdir':
            if not any('ERROR' in l and 'blocker' in l for l in o['stderr'].split('\n')):
                fails.append(f'the output directory that cannot be created is not named in an error: {e2e.error_lines(o["stderr"])}')
            if o['snap']:
                fails.append('something was written although the output directory could not be created')
        elif c['fault'] in ['devfull', 'dir', 'fsize'] + CREATE_FAULTS:
            if not any('ERROR' in l and f'/{victim}' in l for l in o['stderr'].split('\n')):
                fails.append(f'the failed write of {victim} is not logged with its path: {e2e.error_lines(o["stderr"])}')
            if f'default.target.wants/{victim}' in o['snap']:
                fails.append(f'{victim} could not be written but was enabled')
        if c['fault'] != 'outdir':
            for nm in c['names']:
                svc = nm + '.service'
                if svc == victim and c['fault'] != 'none':
                    continue
                if o['snap'].get(svc, ('?',))[0] != 'f' or o['snap'][svc][2] == 0:
                    fails.append(f'{svc} must still be written: {o["snap"].get(svc)}')
                if o['snap'].get(f'default.target.wants/{svc}', ('?',))[0] != 'l':
                    fails.append(f'{svc} must still be enabled')
        for f in fails:
            res.oracle_failures.append(dict(op='fault-run', input=c, impl_output=dict(exit=o['exit'], stderr=e2e.error_lines(o['stderr'])[:4], out=sorted(o['snap'])), oracle_expectation=f))
    # many failures in one run: the exit status must stay non-zero whatever their number is (an exit status is one byte)
    # … and every single one of them is reported: each file that could not be written (and each unit that did not convert) is named in
    # an error line, whether it is the first, the tenth or the two-hundredth failure of the run
    for n_write, n_conv in ((256, 0), (1, 255), (512, 0), (12, 0), (1, 10), (3, 12), (1, 9), (2, 30)) if ctx.thorough else ((256, 0), (1, 255), (12, 0), (1, 10), (3, 12)):
        res.oracle_evals += 1
        base = e2e.fresh_dir()
        os.makedirs(os.path.join(base, 'src'))
        out = os.path.join(base, 'out')
        os.makedirs(out)
        for i in range(n_write):
            with open(os.path.join(base, 'src', f'w{i}.container'), 'w') as f:
                f.write('[Container]\nImage=localhost/i\n')
            os.makedirs(os.path.join(out, f'w{i}.service'))      # a directory in the way: the write fails
        for i in range(n_conv):
            with open(os.path.join(base, 'src', f'c{i}.container'), 'w') as f:
                f.write('[Container]\nImage=localhost/i\nBogusKey=1\n')
        rc, so, se = e2e.run_binary(['--no-kmsg-log', out], os.path.join(base, 'src'), timeout=120)
        shutil.rmtree(base, ignore_errors=True)
        elines = [l for l in se.split('\n') if 'ERROR' in l]
        unnamed = [f'w{i}.service' for i in range(n_write) if not any(f'/w{i}.service"' in l for l in elines)] + \
                  [f'c{i}.container' for i in range(n_conv) if not any(f'/c{i}.container"' in l for l in elines)]
        if unnamed:
            res.oracle_failures.append(dict(op='fault-run', input=dict(failing_writes=n_write, conversion_errors=n_conv),
                                            impl_output=dict(exit=rc, errors_logged=len(elines), last_lines=elines[-3:]),
                                            oracle_expectation=f'every failure is logged with its file: no error line names {unnamed[:8]} ({len(unnamed)} of {n_write + n_conv} failures)'))
        if rc == 0 or rc not in range(1, 256):
            res.oracle_failures.append(dict(op='fault-run', input=dict(failing_writes=n_write, conversion_errors=n_conv),
                                            impl_output=dict(exit=rc, errors_logged=len(e2e.error_lines(se))),
                                            oracle_expectation=f'{n_write} service files cannot be written (and {n_conv} units fail to convert): the exit status must be non-zero'))
    # a service file that cannot be created because of its own *name*: the unit's file name is fine, the generated name (stem + type suffix +
    # ".service", or a long ServiceName=) exceeds what a directory entry can hold — a failure to create like any other: reported, status 1,
    # the other services written; at the boundary (255 bytes) the file is written
    long_cases = []
    for kind, stem_len in (('volume', 248), ('network', 245), ('pod', 250), ('volume', 240), ('svcname', 252), ('svcname', 247), ('image', 243)):
        long_cases.append((kind, stem_len))

    def run_long(c):
        kind, n = c
        base = e2e.fresh_dir()
        os.makedirs(os.path.join(base, 'src'))
        if kind == 'svcname':
            files = {'named.container': '[Container]\nImage=localhost/i\nServiceName=' + 's' * n + '\n'}
            svc = 's' * n + '.service'
        else:
            sec = {'volume': 'Volume', 'network': 'Network', 'pod': 'Pod', 'image': 'Image'}[kind]
            files = {'v' * n + '.' + kind: '[' + sec + ']\n' + ('Image=quay.io/x/y\n' if kind == 'image' else '')}
            svc = 'v' * n + '-' + kind + '.service'
        files['aa-before.container'] = '[Container]\nImage=localhost/a\n'
        files['zz-after.volume'] = '[Volume]\n'
        for fn, t in files.items():
            with open(os.path.join(base, 'src', fn), 'w') as f:
                f.write(t)
        out = os.path.join(base, 'out')
        rc, so, se = e2e.run_binary(['--no-kmsg-log', out], os.path.join(base, 'src'))
        made = sorted(os.listdir(out)) if os.path.isdir(out) else []
        shutil.rmtree(base, ignore_errors=True)
        return svc, rc, se, made
    for (kind, n), (svc, rc, se, made) in zip(long_cases, e2e.pmap(run_long, long_cases)):
        res.oracle_evals += 1
        too_long = len(svc.encode()) > 255
        errs = [l for l in se.split('\n') if 'ERROR' in l]
        fails = []
        if too_long:
            if rc != 1:
                fails.append(f'the service file name has {len(svc)} bytes and cannot be created: exit status must be 1, is {rc}')
            if not any(svc[:60] in l for l in errs):
                fails.append(f'no error names the service file that could not be created ({svc[:20]}… {len(svc)} bytes): {[e[:160] for e in errs[:3]]}')
        elif rc != 0 or svc not in made:
            fails.append(f'a service file name of {len(svc)} bytes fits: exit {rc}, written {svc in made}')
        if 'aa-before.service' not in made or 'zz-after-volume.service' not in made:
            fails.append(f'the other services must still be written: {[m[:40] for m in made]}')
        for f in fails:
            res.oracle_failures.append(dict(op='fault-run', input=dict(kind=kind, stem_or_name_length=n, service_file_name_bytes=len(svc)), impl_output=dict(exit=rc, errors=[e[:200] for e in errs[:3]]),
                                            oracle_expectation=f))
    # the whole output directory on a read-only file system (EROFS: the observation point "read-only mounts"), in a private mount namespace
    from props import c14 as _c14
    if _c14.ns_available():
        import e2e as _e, shutil as _s, subprocess as _sp, tempfile as _t
        for pre in ('empty', 'older-generation'):
            res.oracle_evals += 1
            base = _t.mkdtemp(prefix='qverif-ro-', dir='/tmp')
            _e.write_tree(base, {'src/a.container': '[Container]\nImage=localhost/i\n[Install]\nWantedBy=default.target\n', 'src/b.volume': '[Volume]\n'})
            out = os.path.join(base, 'out')
            os.makedirs(out)
            if pre == 'older-generation':
                _e.run_binary(['--no-kmsg-log', out], os.path.join(base, 'src'))
            before = _e.snapshot(out)
            p = _sp.run(['unshare', '-m', 'sh', '-c', f'mount --bind {out} {out} && mount -o remount,ro,bind {out} && QUADLET_UNIT_DIRS={base}/src {core.BIN} --no-kmsg-log {out}'],
                        capture_output=True, timeout=60)
            se = p.stderr.decode('utf-8', 'replace')
            after = _e.snapshot(out)
            _s.rmtree(base, ignore_errors=True)
            fails = []
            if p.returncode != 1:
                fails.append(f'exit status {p.returncode} although nothing can be written')
            for svc in ('a.service', 'b-volume.service'):
                if not any('ERROR' in l and svc in l for l in se.split('\n')):
                    fails.append(f'no error names {svc}: {_e.error_lines(se)[:4]}')
            if before != after:
                fails.append('the read-only directory changed')
            for f in fails:
                res.oracle_failures.append(dict(op='fault-run', input=dict(fault='read-only output directory', output_directory=pre), impl_output=dict(exit=p.returncode, stderr=_e.error_lines(se)[:4]), oracle_expectation=f))
    # "it still writes the remaining services" — also those that *refer* to the unit whose service could not be written (the failure is
    # about a file, not about the unit: what the unit publishes in the run stays valid)
    import e2e as _e2e, shutil as _sh
    rcases = [(fault, ref) for fault in ('dir', 'devfull', 'dangling') for ref in ('Volume=data.volume:/d', 'Network=data.network', 'Image=data.image', 'Pod=data.pod')]

    def run_ref(c):
        fault, ref = c
        ext = ref.split('.')[1].split(':')[0]
        victim = 'data' + ('' if ext == 'pod' and False else '-' + ext) + '.service'
        base = _e2e.fresh_dir()
        files = {'src/data.' + ext: '[' + ext.capitalize() + ']\n' + ('Image=quay.io/x/y\n' if ext == 'image' else ''),
                 'src/app.container': '[Container]\n' + ('Image=localhost/i\n' if not ref.startswith('Image=') else '') + ref + '\n[Install]\nWantedBy=default.target\n'}
        _e2e.write_tree(base, files)
        out = os.path.join(base, 'out')
        os.makedirs(out)
        if fault == 'dir':
            os.makedirs(os.path.join(out, victim))
        else:
            os.symlink('/dev/full' if fault == 'devfull' else os.path.join(base, 'nowhere', 'x'), os.path.join(out, victim))
        rc, so, se = _e2e.run_binary(['--no-kmsg-log', out], os.path.join(base, 'src'))
        snap = _e2e.snapshot(out)
        _sh.rmtree(base, ignore_errors=True)
        return victim, rc, se, snap
    for (fault, ref), (victim, rc, se, snap) in zip(rcases, _e2e.pmap(run_ref, rcases)):
        res.oracle_evals += 1
        fails = []
        if ref.startswith('Pod='):
            # (a pod is written after its members: the member is the one written before the failure — it must be there all the same)
            pass
        if rc != 1 or not any('ERROR' in l and '/' + victim in l for l in se.split('\n')):
            fails.append(f'the failed write of {victim} must give exit status 1 and an error naming it: exit {rc}, {_e2e.error_lines(se)[:3]}')
        if snap.get('app.service', ('?',))[0] != 'f' or 'default.target.wants/app.service' not in snap:
            fails.append(f'app.container refers to the unit whose service file could not be written ({ref}); its own service must still be written and enabled: {sorted(snap)}; {_e2e.error_lines(se)[:3]}')
        for f in fails:
            res.oracle_failures.append(dict(op='fault-run', input=dict(fault=fault, victim=victim, referrer=ref), impl_output=dict(exit=rc, out=sorted(snap)), oracle_expectation=f))
    ctx.log(f'oracle: {res.oracle_evals} fault-injection runs, {len(res.oracle_failures)} failures')
