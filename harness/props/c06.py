"""C06 — generated unit files read back exactly as generated; values cannot forge lines"""
import json, os
import core, gen, gen_units as G, canon, e2e
from core import hx, unhx

LEAN_MODULE = 'QM.Props.C06Conv'
THEOREMS = ['Parse.C06_print_parse', 'P.C06_quoteValue_no_newline', 'P.C06_quoteWords_no_newline', 'P.quoteArms_no_newline',
            'Cv.C06_container_no_forged_lines', 'Cv.C06_pod_no_forged_lines', 'Cv.C06_kube_no_forged_lines', 'Cv.C06_volume_no_forged_lines',
            'Cv.C06_network_no_forged_lines', 'Cv.C06_build_no_forged_lines', 'Cv.C06_loaded_unit_newline_free', 'Cv.C06_container_end_to_end', 'Parse.parse_noNL']
ASSUMPTIONS = [
    'Parse.printUnit / Parse.parse model to_string / the reader; tied to the code by the parse and unit-script correspondences',
    'that every service produced by the converters is well-formed in the sense of WFSec (the hypothesis of C06_print_parse) is checked on real conversions (every entry of every generated service is compared after a real write and read-back), not yet proved over the converter models',
    'known finding KF-C06-1: a string stored with add() that begins or ends with U+0020 is written verbatim and read back trimmed',
]
LEVEL_TEXT = ('Proof + end-to-end oracle: Lean theorem C06_print_parse — every well-formed unit (explicit decidable conditions on section names, keys '
              'and raw values) printed by the serialiser model parses back to exactly itself, entry by entry (induction over sections and entries); '
              'C06_quoteValue_no_newline / C06_quoteWords_no_newline — whatever text is stored through add/set or rendered as an Exec line contains no '
              'newline, so it cannot start another line (proved over the escape tables extracted from the source); C06_<type>_no_forged_lines — for '
              'every converter model, if the unit is newline-free (which parse_noNL proves for everything the reader accepts: induction over the '
              'character-level value state machine) then so is the generated service: no key and no raw value contains a newline, whatever the '
              'values, paths and names are (NLfree calculus over add / set / prepend / add_raw / merge / rename). That the converters only produce '
              'well-formed units is checked on the real binary: every generated service file is read back by an independent line reader and by the '
              'repository parser and compared, entry by entry, with the unit the converter built.')
LEVEL_NOTE = 'Trusted: Lean kernel; extractor; correspondence; e2e read-back on generated units for the converter invariant (KF-C06-1 excluded by its predicate).'
TECHNIQUE = 'Lean 4 proof (parse ∘ print = id on well-formed units; no newline in stored values) + correspondence + real write/read-back oracle'

NASTY = ['é\\nForged=1', 'Grüße \\n[Service]', '日本\\x0aK=v', 'a\\nb', 'x\\x0ay', '[Service]', 'ExecStart=/bin/evil', '#c', ';c', 'a=b', 'q"r', "it's", 'a\\\\b', 'é\\tü', 'a\\x5bb\\x5d', '%h/[x]=1;#', '\\x0a[Install]\\x0aWantedBy=evil.target',
         'trail\\\\', '"a b" c', "'x y'", 'k=\\x0aForged=1', '\\n\\nExecStartPre=/bin/false', 'a\\x0db', '\\u2028x', 'x\\s']
KEYS = {'container': ['ContainerName', 'Exec', 'Environment', 'Label', 'Annotation', 'HostName', 'PodmanArgs', 'Volume', 'Mount', 'User', 'WorkingDir', 'Entrypoint',
                      'SecurityLabelType', 'LogOpt', 'AddDevice', 'Secret', 'HealthCmd', 'Timezone', 'EnvironmentFile', 'Sysctl', 'GlobalArgs', 'ServiceName'],
        'volume': ['VolumeName', 'Label', 'Device', 'Options', 'PodmanArgs', 'Driver', 'ServiceName'],
        'network': ['NetworkName', 'Label', 'Options', 'PodmanArgs', 'Subnet', 'DNS', 'ServiceName'],
        'pod': ['PodName', 'PodmanArgs', 'Volume', 'NetworkAlias', 'AddHost', 'ServiceName'],
        'kube': ['Yaml', 'ConfigMap', 'PodmanArgs', 'LogDriver', 'ExitCodePropagation', 'ServiceName', 'SetWorkingDirectory', 'SetWorkingDirectory'],
        'image': ['Image', 'ImageTag', 'Creds', 'PodmanArgs', 'AuthFile', 'ServiceName'],
        'build': ['ImageTag', 'File', 'Label', 'Environment', 'Secret', 'Target', 'PodmanArgs', 'ServiceName', 'SetWorkingDirectory', 'SetWorkingDirectory']}
# directories the units are put in (below the search directory): the unit's own directory flows into generated values
UNIT_DIRS = ['', '', '', 'sub', 'a b', 'a\nb', 'x\n[Service]\nExecStartPre=evil', 'a\\nb', 'é', 'q"r', "it's", '%h', ' lead', 'trail ', '#c', 'a=b', 'a\rb', 'a\tb']
# keys whose value is a path some directory part of which is copied into the service
PATH_KEYS = {'Yaml', 'File', 'ConfigMap', 'EnvironmentFile', 'AuthFile', 'SetWorkingDirectory'}
FILE_STEMS = ['a', 'x y', 'é', 'a=b', 'a[1]', '#h', ';s', "it's", 'q"r', 'b\\c', 'tpl@', 'tpl@i n', '%n', 'a\tb']


def gen_unit(ctx, ty):
    rnd = ctx.rnd
    base = list(G.BASE[ty])
    if ty in ('kube', 'build') and rnd.random() < 0.4:
        # the one Yaml= / File= with the nasty text in a directory part (the parent directory becomes WorkingDirectory=)
        key = 'Yaml' if ty == 'kube' else 'File'
        base = [b for b in base if not b.startswith(key + '=')] + [f'{key}={rnd.choice(["/opt/", "", "rel/"])}{rnd.choice(NASTY)}/k.yaml']
    lines = ['[' + G.SEC[ty] + ']'] + base
    for _ in range(rnd.randint(1, 5)):
        k = rnd.choice(KEYS[ty])
        v = rnd.choice(NASTY if rnd.random() < 0.7 else G.VALS)
        if k == 'SetWorkingDirectory':
            v = rnd.choice(['yaml', 'file', 'unit', 'unit', 'ctx/dir', rnd.choice(NASTY) + '/ctx', '/abs/' + rnd.choice(NASTY)])
        elif k in PATH_KEYS and rnd.random() < 0.4:
            v = rnd.choice(['/opt/', '', 'rel/']) + v + '/f'
        elif k == 'Volume' and rnd.random() < 0.5:
            # a host path (absolute or .-relative: it becomes RequiresMountsFor=) with the nasty text and, often, a blank
            v = rnd.choice(['/srv/', './', '/']) + rnd.choice(['', 'my data', 'a b ']) + rnd.choice(NASTY) + rnd.choice(['', ' x', ' y z']) + ':/data'
        elif k == 'Mount' and rnd.random() < 0.5:
            v = 'type=bind,' + rnd.choice(['source', 'src']) + '=' + rnd.choice(['/srv/', './']) + rnd.choice(['', 'my data']) + rnd.choice(NASTY).replace(',', '') + rnd.choice(['', ' x']) + ',dst=/m'
        if k == 'ServiceName' and ('/' in v or rnd.random() < 0.6):
            continue
        if rnd.random() < 0.08:
            # a backslash as the last character of the value (white space other than blanks after it is trimmed, no continuation): a
            # unit that is accepted with it must not let it continue a line of the *generated* file
            lines.append(f'{k}={v}\\' + rnd.choice(['\t', '\r', '\x0c', '\xa0', '\t \t']))
        elif rnd.random() < 0.12:
            # the assignment continues over physical lines: with comment, blank and blanks-only lines after the backslash
            lines.append(f'{k}={v} \\\n' + rnd.choice(['', '\n', '   \n', '#c\n', ';c\n', '\t\n#c\n']) + rnd.choice(['tail', 'Label=forged=yes', 'KillMode=process', '[Service]']))
        else:
            lines.append(f'{k}={v}')
    if rnd.random() < 0.06:
        # malformed section headers: closed on a later line, or never; a unit that is accepted nevertheless must still
        # be written one line per entry
        lines += [rnd.choice(['[X-Note\nExecStartPre=/bin/false\n]\nK=1', '[X-A\n[Service]\nExecStartPre=/bin/false\nX=]\nK=1', '[X-B \\\nC]\nK=1', '[X-C]]\nK=1', '[X-D]trailing\nK=1'])]
    if rnd.random() < 0.4:
        lines += [f'[{rnd.choice(["My [odd] name", "X-Foo", "Unit", "Service", "a=b", "#x"])}]', f'Description={rnd.choice(NASTY)}', f'K-{rnd.randint(1, 3)}={rnd.choice(NASTY)}']
    return '\n'.join(lines) + '\n'


def gen_linked(ctx):
    """a set of units that hand strings to each other (service names to the pod and to referrers, object names to referrers):
    text that reaches a service from *another* unit than the one it is generated for"""
    rnd = ctx.rnd
    def nasty():
        v = rnd.choice(NASTY)
        return v if '/' not in v else 'n\\nb'
    def opt(k, p=0.6):
        return [f'{k}={nasty()}'] if rnd.random() < p else []
    g = {}
    g['p.pod'] = '\n'.join(['[Pod]'] + opt('PodName', 0.3) + opt('ServiceName', 0.3)) + '\n'
    g['v.volume'] = '\n'.join(['[Volume]'] + opt('VolumeName') + opt('ServiceName', 0.3)) + '\n'
    g['n.network'] = '\n'.join(['[Network]'] + opt('NetworkName') + opt('ServiceName', 0.3)) + '\n'
    g['i.image'] = '\n'.join(['[Image]', 'Image=quay.io/x/y'] + opt('ImageTag') + opt('ServiceName', 0.3)) + '\n'
    g['b.build'] = '\n'.join(['[Build]', 'File=/opt/Containerfile', 'ImageTag=' + (nasty() if rnd.random() < 0.6 else 'localhost/t')] + opt('ServiceName', 0.3)) + '\n'
    for c in ('m1', 'm2'):
        g[c + '.container'] = '\n'.join(['[Container]', 'Image=' + rnd.choice(['localhost/img', 'i.image', 'b.build']), 'Pod=p.pod'] + opt('ServiceName') + opt('ContainerName', 0.4)
                                        + (['StartWithPod=' + rnd.choice(['yes', 'no'])] if rnd.random() < 0.3 else [])) + '\n'
    g['r.container'] = '\n'.join(['[Container]', 'Image=' + rnd.choice(['i.image', 'b.build']), 'Volume=v.volume:/d', 'Network=n.network', 'Network=m1.container',
                                  'Mount=type=volume,source=v.volume,dst=/m']) + '\n'
    g['w.volume'] = '[Volume]\nDriver=image\nImage=' + rnd.choice(['i.image', 'b.build']) + '\n'
    for k in rnd.sample(sorted(g), rnd.randint(0, 3)):
        if k not in ('p.pod', 'r.container', 'm1.container'):
            del g[k]
    return g


def corr_ops(ctx):
    rnd = ctx.rnd
    ctx._c06 = []
    ops = []
    for _ in range(3000 if ctx.thorough else 600):
        ty = rnd.choice(G.TYPES)
        d = rnd.choice(UNIT_DIRS)
        name = (d + '/' if d else '') + rnd.choice(FILE_STEMS) + '.' + ty
        text = gen_unit(ctx, ty)
        ctx._c06.append((name, text))
        ops.append(f'convert\t0\t0\t{hx("/q/" + name)}\t{hx(text)}')
    # print/parse on the model's side of the same units is covered by the unit scripts of C15/C19; here also raw add/set of nasty strings
    for _ in range(1500 if ctx.thorough else 400):
        v = rnd.choice(NASTY).encode().decode('unicode_escape', 'replace') if rnd.random() < 0.5 else gen.rs(rnd, 8, [c for c in gen.WIDE if c != '\x00'])
        sc = ['unit', 'add', hx('Service'), hx('K'), hx(v), 'set', hx('Unit'), hx('D'), hx(v), 'prepend', hx('Unit'), hx('P'), hx(v), 'to_string', 'dump']
        ops.append('\t'.join(sc))
    return ops


def project(op, out):
    return canon.canon_result(out) if op.startswith('convert') else out


def nontrivial(op, out):
    return out.startswith('ok svc') or (op.startswith('unit') and out.startswith('ok'))


def kf_c06_1(entries_written, entries_built):
    """KF-C06-1 predicate: the only difference is white space at the ends of a raw value stored with add()"""
    return len(entries_written) == len(entries_built) and all(
        a[0] == b[0] and a[1].strip(' ') == b[1].strip(' ') for a, b in zip(entries_written, entries_built))


def oracle(ctx):
    res = ctx.res
    rnd = ctx.rnd
    units = getattr(ctx, '_c06', None)
    if units is None:
        units = []
        for _ in range(600):
            ty = rnd.choice(G.TYPES)
            d = rnd.choice(UNIT_DIRS)
            units.append(((d + '/' if d else '') + rnd.choice(FILE_STEMS) + '.' + ty, gen_unit(ctx, ty)))
    known = {k['id']: k for k in ctx.known}
    units = list(units)
    # every documented key whose text is carried into a command, once with an escaped line feed followed by what would be forged lines
    # (whatever route the value takes inside the generator: table helper, handler, slice of literals): systematic, not drawn
    from props import c02 as _c02
    sysn = 0
    for ty in G.TYPES:
        for key, kind, spec_ in _c02.key_specs(ty):
            if kind == 'bool' or (kind == 'special' and isinstance(spec_, tuple)):
                continue
            for v in ('/etc/p.json\\nRestart=always\\n[Install]\\nWantedBy=evil.target', 'v\\x0aExecStartPre=/bin/false', '"q\\n[Service]\\nK=1"'):
                if sysn % (1 if ctx.thorough else 2) == 0:
                    units.append((f'sys{sysn}.' + ty, '[' + G.SEC[ty] + ']\n' + '\n'.join(G.BASE[ty] + [f'{key}={v}']) + '\n'))
                sysn += 1
    # lengths: entries far beyond any line-length limit a writer might think of (2 KiB, 4 KiB, 64 KiB), made of words that would start a
    # comment, a section or a continuation if a line were ever broken before them — one line per entry, however long
    for L in (2100, 4200, 9000, 70000):
        words = ' '.join(['#c', ';s', '[X-Forged]ExecStartPost=/bin/x', 'Restart=always', 'plain', 'trail\\\\'] * (L // 60))
        units.append((f'long{L}.container', f'[Container]\nImage=localhost/i\nPodmanArgs={words}\nExec={words}\n[Service]\nExecStartPre=/bin/echo {words}\nRestart=no\n[Unit]\nDescription={words}\n'))
        units.append((f'long{L}.kube', f'[Kube]\nYaml=/k.yaml\nPodmanArgs={words}\n[Service]\nEnvironment={words}\n'))
    # [Install] Alias= that, once cleaned, is the name of the unit's own service file (plain unit, template, instance; with and without
    # DefaultInstance=): the file that is read back is the generated text, never a link put in its place
    SUFFIX = {'volume': '-volume', 'network': '-network', 'pod': '-pod', 'image': '-image', 'build': '-build'}
    for stem in ('own', 'own@', 'own@inst'):
        for ty in G.TYPES:
            for spell in ('{}', './{}', 'x/../{}', '{} other.service'):
                for di in ('', 'DefaultInstance=d\n'):
                    if di and stem != 'own@':
                        continue
                    st = stem.replace('own', f'own{len(units)}')
                    sname = st.replace('@', SUFFIX.get(ty, '') + '@') if '@' in st else st + SUFFIX.get(ty, '')
                    units.append((f'{st}.{ty}', '[' + G.SEC[ty] + ']\n' + '\n'.join(G.BASE[ty]) + '\n[Install]\n' + di
                                  + 'Alias=' + spell.format(sname + '.service') + '\nWantedBy=multi-user.target\n'))
    # (T1) where text reaches a unit without the value quoter: inventory regenerated from the source vs the reviewed classification
    import sys
    rc0, out0, err0 = core.sh([sys.executable, os.path.join(core.VERIF, 'tools', 'raw_sites.py'), core.REPO, os.path.join(core.BUILD, 'raw_sites.json')])
    sites = json.load(open(os.path.join(core.BUILD, 'raw_sites.json'))) if rc0 == 0 else []
    spec = {(x['file'], x['fn'], x['kind'], x['args'], x['n']) for x in json.load(open(os.path.join(core.VERIF, 'spec', 'raw_sites.json')))}
    have = {(x['file'], x['fn'], x['kind'], x['args'], x['n']) for x in sites}
    diff = sorted(have ^ spec)
    res.extra_obligations.append(('raw-store / serialiser site inventory matches the reviewed classification (spec/raw_sites.json)', rc0 == 0 and not diff,
                                  'sites that differ: ' + '; '.join(f'{d[0]}:{d[1]}: {d[2]}{d[3][:80]}' for d in diff[:6])))
    res.notes.append(f'{len(sites)} raw-store / serialiser sites inventoried, {len(diff)} differ from the classification')
    for k in ctx.known:
        ex = json.load(open(os.path.join(core.VERIF, 'known_findings.d', k['example'])))
        units.append(('kf1.container', ex['input']))
    # 1. stored strings never contain a newline (real quote_value / quote_words)
    strs = [gen.rs(rnd, 8, gen.WIDE) for _ in range(2000)] + ['\n', 'a\nb', '\r\n', '\x0b', '\x0c', '\x85', ' ']
    # (characters of every UTF-8 width before the first one that needs escaping, a line feed right after it)
    strs += [pre + mid + '\n' + post for pre in ('é', 'Grüße', '日本', '𝄞', 'aé', 'é𝄞日') for mid in ('', ' ', '"', '\\') for post in ('', 'K=v', '[S]')]
    for s_, a in zip(strs, ctx.impl(['quote_value\t' + hx(s_) for s_ in strs])):
        res.oracle_evals += 1
        if not a.startswith('ok x') or '\n' in unhx(a[3:]):
            res.oracle_failures.append(dict(op='quote_value\t' + hx(s_), input=s_, impl_output=core.dec_line(a), oracle_expectation='no newline in the stored text'))
    # 2. real write, independent read-back
    batch = []
    for i in range(0, len(units), 8):
        group, seen = {}, set()
        for name, text in units[i:i + 8]:
            # one unit per file name in a run: a second one of the same name in another directory is shadowed (C13), not converted
            if os.path.basename(name) not in seen:
                seen.add(os.path.basename(name))
                group[name] = text
        batch.append(group)
    linked = [gen_linked(ctx) for _ in range(160 if ctx.thorough else 40)]
    linked_ids = {id(g) for g in linked}
    batch += linked

    def run(group):
        base = e2e.fresh_dir()
        os.makedirs(os.path.join(base, 'src'))
        ok = {}
        for name, text in group.items():
            try:
                e2e.write_tree(base, {'src/' + name: text})
                ok[name] = text
            except OSError:
                pass
        out = os.path.join(base, 'out')
        if hash(base) % 2:
            # the output directory already holds an older, longer generation of the same files
            e2e.run_binary(['--no-kmsg-log', out], os.path.join(base, 'src'))
            e2e.make_stale(out)
        rc, so, se = e2e.run_binary(['--no-kmsg-log', out], os.path.join(base, 'src'))
        services = {}
        if os.path.isdir(out):
            for fn in os.listdir(out):
                p = os.path.join(out, fn)
                if os.path.isfile(p) and not os.path.islink(p):
                    services[fn] = open(p, 'rb').read().decode('utf-8', 'replace')
        import shutil
        shutil.rmtree(base, ignore_errors=True)
        return base, ok, rc, services, se, id(group) in linked_ids
    results = e2e.pmap(run, batch)
    for base, group, rc, services, se, is_linked in results:
        names = list(group)
        if is_linked:
            # one conversion of the whole set, in one of the orders of the main loop: what the generator built for every unit
            order = G.sorted_order(rnd, names, ctx.tables)
            op1 = 'convert\t0\t' + ','.join(map(str, order)) + ''.join(f'\t{hx(base + "/src/" + n)}\t{hx(group[n])}' for n in names)
            a1 = ctx.impl([op1])[0]
            parts = a1[3:].split(' | ') if a1.startswith('ok ') else []
            by = {names[i]: 'ok ' + p for i, p in zip(order, parts)}
            ops = [op1 for n in names]
            built = [by.get(n, 'err') for n in names]
        else:
            ops = [f'convert\t0\t0\t{hx(base + "/src/" + n)}\t{hx(group[n])}' for n in names]
            built = ctx.impl(ops)
        svc_names = {}
        for n, op, a in zip(names, ops, built):
            r = canon.parse_convert(a)[0]
            if r[0] != 'svc':
                continue
            svc_names.setdefault(r[1], []).append((n, op, r))
        for sname, lst in svc_names.items():
            if len(lst) != 1:
                continue  # two units with one service file name: KF-C10-1, not this property
            n, op, r = lst[0]
            res.oracle_evals += 1
            if rc not in (0, 1):
                res.oracle_failures.append(dict(op=op, input=group[n], impl_output=f'exit {rc}: {se[-300:]}', oracle_expectation='exit status 0 or 1'))
                continue
            if sname not in services:
                if '/' in sname:
                    continue
                res.oracle_failures.append(dict(op=op, input=group[n], impl_output=f'services written: {sorted(services)}; stderr {se[-400:]}',
                                                oracle_expectation=f'the service file {sname!r} is written'))
                continue
            text = e2e.strip_header(services[sname])
            secs, err = e2e.line_reader(text)
            def cx(entries):
                # the order of option groups derived from name=value keys is unspecified (HashMap) and differs between runs
                es = [(k, canon.canon_exec(v) if k.startswith('Exec') else v) for k, v in entries]
                # members register with their pod in processing order, which the unstable sort leaves open among containers
                return sorted(es) if is_linked else es
            want = [(sec, cx(r[2][sec])) for sec in r[3]]
            if err or [(a, cx(b)) for a, b in secs] != want:
                res.oracle_failures.append(dict(op=op, input=group[n], impl_output=text,
                                                oracle_expectation=f'one line per entry, exactly the entries the generator produced {want}; line reader: {err or secs}'))
                continue
            # the repository's own reader
            back = ctx.impl(['parse\t' + hx(text)])[0]
            rb = canon.parse_convert('ok svc x ' + back[3:])[0] if back.startswith('ok') else None
            got = [(sec, cx(rb[2][sec])) for sec in rb[3]] if rb else None
            if got != want:
                if got is not None and len(got) == len(want) and all(g[0] == w[0] and kf_c06_1(g[1], w[1]) for g, w in zip(got, want)):
                    if 'KF-C06-1' in known:
                        res.known_hits['KF-C06-1'] = known['KF-C06-1']['what']
                        continue
                res.oracle_failures.append(dict(op=op, input=group[n], impl_output=f'read back: {got}', oracle_expectation=f'exactly {want}'))
    res.samples.append(dict(kind='oracle-case', unit=units[0][1], file=units[0][0]))
    ctx.log(f'oracle: {res.oracle_evals} evaluations, {len(res.oracle_failures)} failures')
