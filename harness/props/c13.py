"""C13 — search order picks among same-named files; drop-ins come from every search dir"""
import os, re, shutil
import core, gen, e2e, trees, canon
from core import hx, unhx
import props.c10 as c10

LEAN_MODULE = 'QM.Props.C13'
THEOREMS = ['Cv.C13_one_per_name', 'Cv.C13_first_wins', 'Cv.C13_merge_order', 'Cv.C13_dropin_dirs', 'Cv.C13_dropins_one_per_name',
            'Cv.C13_dropins_first_dir_wins', 'Cv.C13_dropins_complete', 'Cv.C13_dropins_name_order', 'Cv.C13_split_equiv', 'Cv.C13_split_histories',
            'Parse.entriesOf_eraseSects', 'Parse.nodup_eraseSects', 'Cv.C13_split_exact', 'Cv.C13_split_same_services', 'Parse.eraseSects_eq_merge',
            'MM.merge_extend', 'MM.modify_comm', 'Parse.addEntries_eq_modify', 'Cv.C13_dropin_failure_never_forgotten', 'Cv.C13_dropins_all_load', 'Cv.mergeStep_sticky']
ASSUMPTIONS = [
    'the directory tree is abstract (Cv.Tree); walkdir/read_dir are third-party behaviour represented by the listing order of the tree; within one directory the order is unspecified, so generated trees hold at most one copy of a name per search root',
    'Cv.runTree (search dirs with sub-directories, first-seen-wins, drop-in collection and merge, then the conversion loop) is compared with real --dry-run runs of the binary on generated trees (services printed, counts of load / drop-in / conversion errors)',
    'the drop-in rule is proved over the model of load_dropins_from (Cv.dropinDirs / collectConfs / sortConfs): which directories are consulted and in which priority, one survivor per name taken from the first directory that has it, every name represented, merge in byte-wise name order; it is tied to the code by the whole-run correspondence and checked independently with origin markers on the real binary',
]
LEVEL_TEXT = ('Proof (discovery fold) + whole-run correspondence + marker oracle: Lean theorems over the model of load_units_from_dir — for every candidate '
              'list (any number of search directories and files) exactly one unit is loaded per file name (C13_one_per_name) and it is the first file of '
              'that name in search order that can be loaded (C13_first_wins; invariant over the fold with its seen set); merging drop-ins appends their '
              'assignments after the main file\'s in merge order (C13_merge_order, from C15). Drop-ins (model of load_dropins_from): the directories '
              'consulted are <dir>/<unit>.d of every directory of the search order and then, for a template instance, <dir>/<base>@.<type>.d '
              '(C13_dropin_dirs); at most one drop-in per name is merged (C13_dropins_one_per_name), taken from the first directory in that '
              'priority order that has the name (C13_dropins_first_dir_wins: hiding), every name found anywhere is merged '
              '(C13_dropins_complete), in byte-wise name order whatever directory it came from (C13_dropins_name_order). One file or main file '
              'plus drop-in (C13_split_equiv, over the parser model and every rendering): a unit cut at a section boundary into a main file and a '
              'drop-in reads, section by section, as the same entries in the same order as the single file, so every lookup agrees '
              '(C13_split_histories); when every section of the drop-in carries an entry the two are the same unit, section order included '
              '(C13_split_exact: the parser\'s accumulator equals merge_from of the parsed drop-in, by commutation of updates to different '
              'sections), so every converter and the whole run give the same services (C13_split_same_services) — the premise of the '
              'file-level spelling oracle that runs the real loader. Partial with respect '
              'to the runtime: directory walking is modelled by an abstract tree and tied by running the binary on generated trees; the same '
              'rule is checked independently with origin markers on real runs.')
LEVEL_NOTE = 'Trusted: Lean kernel; whole-run correspondence; the Python statement of the drop-in rule. readdir order inside one directory is outside the model.'
TECHNIQUE = 'Lean 4 invariant proofs over the discovery fold (first-seen-wins, one per name) and the drop-in collection (first directory wins, complete, name order) + whole-run model correspondence + origin-marker oracle on real runs'

correspond = c10.correspond


def spec(roots, files, base):
    """expected ORIGIN tag and drop-in env set per unit name, by the rule of the property"""
    def dirs_of(root):
        ds = sorted({os.path.dirname(p) for p in files if p.startswith(root + '/')} | {root})
        # every directory and its ancestors up to the root
        out = set()
        for d in ds:
            while d.startswith(root):
                out.add(d)
                if d == root:
                    break
                d = os.path.dirname(d)
        return out
    search = []   # directories in search order; inside one root the relative order does not matter for these trees
    for r in roots:
        ds = list(dirs_of(r))   # every sub-directory counts, whatever its name (a drop-in directory is a sub-directory too)
        search.append(sorted(ds, key=lambda d: (d.count('/'), d)))
    flat = [d for ds in search for d in ds]
    exp = {}
    names = sorted({os.path.basename(p) for p in files if p.rsplit('.', 1)[-1] in ('container', 'volume', 'network')})
    for n in names:
        winner = None
        load_errors = 0
        for ds in search:
            cands = [os.path.join(d, n) for d in ds if os.path.join(d, n) in files]
            for c in cands:
                if winner is None:
                    if files[c].startswith('garbage'):
                        load_errors += 1
                    else:
                        winner = c
        # drop-ins
        ddirs = [os.path.join(d, n + '.d') for d in flat]
        st = n.rsplit('.', 1)[0]
        if '@' in st and st.split('@', 1)[0] and st.split('@', 1)[1]:
            ddirs += [os.path.join(d, st.split('@', 1)[0] + '@.' + n.rsplit('.', 1)[1] + '.d') for d in flat]
        confs = {}
        for dd in ddirs:
            for p in sorted(files):
                if os.path.dirname(p) == dd and p.endswith('.conf') and os.path.basename(p) not in confs:
                    confs[os.path.basename(p)] = p
        merged, broken = [], False
        for cn in sorted(confs):
            if files[confs[cn]].startswith('[broken'):
                broken = True
                break
            merged.append(confs[cn])
        exp[n] = dict(winner=winner, load_errors=load_errors, merged=merged, dropin_error=broken)
    return exp


def tags_of(text, unit_kind):
    if unit_kind == 'container':
        return re.findall(r'^Environment=(\w[\w.]*)=(.*)$', text, re.M)
    return [(k, v) for k, v in re.findall(r'^Label=([\w.]+)=(.*)$', text, re.M)]


def oracle(ctx):
    res = ctx.res
    rnd = ctx.rnd
    n = 500 if ctx.thorough else 120
    cases = []
    for _ in range(n):
        base = e2e.fresh_dir()
        roots, files = trees.mktree(rnd, base)
        cases.append((base, roots, files))
    outs = e2e.pmap(lambda c: trees.run_tree(c[1], c[2]), cases)
    for (base, roots, files), a in zip(cases, outs):
        res.oracle_evals += 1
        exp = spec(roots, files, base)
        fails = []
        printed = {}
        for path, text in a['printed'].items():
            m = re.search(r'^SourcePath=(.*)$', text, re.M)
            if m:
                printed.setdefault(os.path.basename(m.group(1)), []).append((m.group(1), text))
        for name, e in exp.items():
            got = printed.get(name, [])
            if e['winner'] is None:
                if got:
                    fails.append(f'{name}: no loadable copy exists but a service was generated')
                continue
            if len(got) != 1:
                fails.append(f'{name}: exactly one service must be generated, got {len(got)}')
                continue
            src, text = got[0]
            if src != e['winner']:
                fails.append(f'{name}: the copy found first in search order is {e["winner"]}, but {src} was used')
            kind = name.rsplit('.', 1)[1]
            sect = {'container': 'X-Container', 'volume': 'X-Volume', 'network': 'X-Network'}[kind]
            body = text.split('[' + sect + ']', 1)[1].split('\n[', 1)[0] if '[' + sect + ']' in text else ''
            tags = [t for t in tags_of(body, kind) if t[0].lower().startswith('d') and t[0] not in ('Dno',)]
            want = []
            for p in e['merged']:
                if files.get(p, None) == '':
                    continue   # an empty drop-in survives (and hides the later ones of its name) but has nothing to contribute
                cn = os.path.basename(p)
                tag = (os.path.dirname(p)[len(base) + 1:] + '/' + cn).replace('/', '_')
                want.append((('D' if kind == 'container' else 'd') + cn[:2], tag))
            if tags != want:
                fails.append(f'{name}: drop-ins merged {tags}, expected (first of each name over all search dirs, in name order) {want}')
        # (how often a file that cannot be loaded is *reported* when its directory is reached twice — a search directory below another one — is
        #  not a matter of this property: it depends on whether a loadable copy was seen in between; the count is compared for disjoint roots)
        nested = any(r1 != r2 and r1.startswith(r2 + '/') for r1 in roots for r2 in roots)
        if not nested and a['load_errors'] != sum(e['load_errors'] for e in exp.values()):
            fails.append(f'load errors {a["load_errors"]} != {sum(e["load_errors"] for e in exp.values())}')
        if a['dropin_errors'] != sum(1 for e in exp.values() if e['dropin_error'] and e['winner']):
            fails.append(f'drop-in errors {a["dropin_errors"]} != {sum(1 for e in exp.values() if e["dropin_error"] and e["winner"])}')
        for f in fails:
            res.oracle_failures.append(dict(op='e2e', input=dict(roots=roots, files=files), impl_output=dict(exit=a['exit'], stderr=e2e.error_lines(a['stderr'])[:5]), oracle_expectation=f))
        shutil.rmtree(base, ignore_errors=True)
    res.samples.append(dict(kind='e2e-tree', roots=cases[0][1], files=cases[0][2]))
    # "merged after the main file in name order" decides single-valued keys too, the naming keys included: the service is named by
    # the last ServiceName= in merge order (main file, then drop-ins by name, whatever directory they are in), and a unit that refers
    # to it depends on that name
    import e2e as _e2e
    ncases = []
    for _ in range(60 if ctx.thorough else 16):
        parts = []   # (file, name assigned or None)
        main = rnd.choice([None, 'from-main'])
        confs = [(cn, rnd.choice(['d0', 'd1']), rnd.choice([None, 'from-' + cn[:2]])) for cn in rnd.sample(['10-a.conf', '20-b.conf', '30-c.conf'], rnd.randint(1, 3))]
        files = {'d0/v.volume': '[Volume]\n' + (f'ServiceName={main}\n' if main else ''), 'd1/r.container': '[Container]\nImage=localhost/i\nVolume=v.volume:/d\n'}
        for cn, d, nm in confs:
            files[f'{d}/v.volume.d/{cn}'] = '[Volume]\n' + (f'ServiceName={nm}\n' if nm else 'Label=x=y\n')
        assigned = ([main] if main else []) + [nm for cn, d, nm in sorted(confs) if nm]
        ncases.append((files, (assigned[-1] if assigned else 'v-volume')))
    for (files, want), r in zip(ncases, _e2e.pmap(lambda c: _e2e.run_case(c[0], dirs=('d0', 'd1'), dry_run=True), ncases)):
        res.oracle_evals += 1
        names = {os.path.basename(k): v for k, v in r['printed'].items()}
        req = re.findall(r'^Requires=(.*)$', names.get('r.service', ''), re.M)
        if want + '.service' not in names or (want + '.service') not in req:
            res.oracle_failures.append(dict(op='e2e', input=files, impl_output=dict(services=sorted(names), requires_of_r=req, exit=r['exit']),
                                            oracle_expectation=f'the volume\'s service is {want}.service (the last ServiceName= in merge order, else the default) and r.service requires it'))
    # … the same for the image a .build publishes (ImageTag= is a list: an empty assignment in a drop-in discards the main file's tags)
    bcases = []
    for _ in range(40 if ctx.thorough else 10):
        d1, d2 = rnd.choice(['d0', 'd1']), rnd.choice(['d0', 'd1'])
        second = rnd.choice(['ImageTag=\nImageTag=localhost/app:v2\n', 'ImageTag=localhost/app:v2\n', 'Label=x=y\n'])
        files = {'d0/b.build': '[Build]\nFile=/opt/Containerfile\nImageTag=localhost/app:v1\n', 'd1/r.container': '[Container]\nImage=b.build\n',
                 f'{d1}/b.build.d/10-a.conf': '[Build]\n' + rnd.choice(['Label=a=b\n', 'ImageTag=\nImageTag=localhost/app:mid\n']),
                 f'{d2}/b.build.d/20-b.conf': '[Build]\n' + second}
        first10 = files[f'{d1}/b.build.d/10-a.conf']
        tags = ['localhost/app:v1']
        for t in (first10, files[f'{d2}/b.build.d/20-b.conf']):
            for l in t.split('\n'):
                if l.startswith('ImageTag='):
                    tags = [] if l == 'ImageTag=' else tags + [l[9:]]
        bcases.append((files, tags[0]))
    for (files, want), r in zip(bcases, _e2e.pmap(lambda c: _e2e.run_case(c[0], dirs=('d0', 'd1'), dry_run=True), bcases)):
        res.oracle_evals += 1
        names = {os.path.basename(k): v for k, v in r['printed'].items()}
        ex = re.findall(r'^ExecStart=(.*)$', names.get('r.service', ''), re.M)
        if not ex or not ex[-1].rstrip().endswith(' ' + want):
            res.oracle_failures.append(dict(op='e2e', input=files, impl_output=dict(exit=r['exit'], run=ex[-1][-120:] if ex else None),
                                            oracle_expectation=f'the container runs the image the merged .build publishes: {want} (its first tag after the last empty assignment, in merge order)'))
    # what is merged is every assignment of every surviving drop-in, after the main file, in name order — also an assignment that
    # repeats an older value (A, B, A; A, reset, A): histories of that shape cut into main file and drop-ins, through the real loader
    import filespell
    HIST = [['AutoUpdate=registry', 'AutoUpdate=local', 'AutoUpdate=registry'], ['PublishPort=8080:80', 'PublishPort=', 'PublishPort=8080:80', 'PublishPort=8443:443'],
            ['Label=a=1', 'Label=a=2', 'Label=a=1'], ['Environment=M=fast', 'Environment=', 'Environment=M=fast'], ['HostName=a', 'HostName=b', 'HostName=a'],
            ['PodmanArgs=-v', 'PodmanArgs=--x', 'PodmanArgs=-v'], ['Pull=never', 'Pull=', 'Pull=never'], ['DNS=1.1.1.1', 'DNS=8.8.8.8', 'DNS=1.1.1.1']]
    sets = []
    for _ in range(200 if ctx.thorough else 50):
        lines = ['[Container]', 'Image=localhost/i']
        for h in rnd.sample(HIST, rnd.randint(1, 3)):
            lines += h
        if rnd.random() < 0.4:
            lines += ['[Service]', 'ExecStartPre=/bin/true', 'ExecStartPre=/bin/false', 'ExecStartPre=/bin/true']
        sets.append({rnd.choice(['h.container', 'tpl@i.container']): '\n'.join(lines) + '\n'})
    filespell.compare(ctx, sets, filespell.DROPIN_WAYS, 'C13 repeated values over drop-ins')
    ctx.log(f'oracle: {res.oracle_evals} evaluations, {len(res.oracle_failures)} failures')
