"""C16 — undocumented keys are rejected, documented keys are accepted"""
import json, os
import core, gen, gen_units as G, canon
from core import hx, unhx

LEAN_MODULE = 'QM.Props.C16'
TYPES = ['image', 'volume', 'network', 'pod', 'kube', 'build', 'container']
THEOREMS = ([f'Cv.C16_{t}_rejects' for t in TYPES] + [f'Cv.C16_{t}_rejects_quadlet' for t in TYPES] +
            ['Cv.C16_names_first', 'Cv.C16_clean_passes'] + [f'Cv.C16_{t}_accepts' for t in TYPES] +
            [f'Conform.supported_{t}' for t in TYPES + ['quadlet', 'extensions']] + ['Conform.unknown_key_checks'])
ASSUMPTIONS = [
    'Spec.documented_* (lean/QM/Spec/Keys.lean, spec/keys.json) is the frozen table of documented keys per unit type, seeded from the pinned tree',
    'Cv.from* are hand-written models of the converters; tied to convert.rs by the convert correspondence on generated units (all types, all keys, near-miss keys)',
    '"documented keys are never rejected because of their keys" is proved for every converter model (C16_<type>_accepts: with documented keys only in the own section and [Quadlet], no step — key check, handlers, monadic folds — can end in an unknown-key error) and checked on real conversions',
]
LEVEL_TEXT = ('Proof: for each of the seven converter models, Lean theorems show that a key of the unit\'s own section or of [Quadlet] that is not in '
              'the supported table makes the conversion return the UnknownKey error naming the first such key in file order (for every unit, every '
              'key string — exact matching, so case changes and one-character edits are covered), and conversely that a unit whose keys are all in '
              'the tables is never rejected with UnknownKey by any step of the converter (C16_<type>_accepts: the key check is the only source '
              'of that error; every handler and every monadic fold is shown to raise other errors only). The supported tables are extracted from constants.rs on every run and proved equal, as sets, to the frozen '
              'documented tables (decide over the finite tables); the two check_for_unknown_keys call sites per converter are extracted and '
              'compared too. Model tied by correspondence; oracle: near-miss keys on the real converter incl. the error text.')
LEVEL_NOTE = 'Trusted: Lean kernel; extractor; frozen documented tables; correspondence on generated units. For .container the theorems cover units whose Mount= values are inside the modelled CSV subset.'
TECHNIQUE = 'Lean 4 proofs over the converter models + decide-checked table conformance (extracted vs. frozen) + near-miss oracle'

SPEC = json.load(open(os.path.join(core.VERIF, 'spec', 'keys.json')))


def near_misses(rnd, key, all_keys, other_keys):
    out = {key.lower(), key.upper(), key[0].lower() + key[1:], key + 's', key[:-1], key + ' ', key.replace('e', 'E', 1), 'X' + key, key + '-x'}
    if len(key) > 2:
        i = rnd.randrange(1, len(key))
        out.add(key[:i] + key[i].swapcase() + key[i + 1:])
        out.add(key[:i] + key[i + 1:])
        out.add(key[:i] + 'x' + key[i:])
    out |= set(rnd.sample(other_keys, min(3, len(other_keys))))
    return [k for k in out if k not in all_keys and k.strip() == k and k and all(c.isalnum() or c == '-' for c in k)]


def cases(ctx):
    rnd = ctx.rnd
    out = []   # (type, text, expected unknown key or None, section)
    docs = SPEC['documented']
    for ty in G.TYPES:
        keys = docs[G.SUP[ty]]
        others = sorted(set(k for t2 in G.TYPES if t2 != ty for k in docs[G.SUP[t2]]) - set(keys))
        base = '[' + G.SEC[ty] + ']\n' + ''.join(l + '\n' for l in G.BASE[ty])
        sel = keys if ctx.thorough else rnd.sample(keys, min(len(keys), 25))
        for k in sel:
            for nm in near_misses(rnd, k, keys, others)[: (12 if ctx.thorough else 4)]:
                # the near miss after some documented keys; the first unknown key is the one to be named
                basekeys = {l.split('=')[0] for l in G.BASE[ty]}
                pre = ''.join(f'{rnd.choice([x for x in keys if x not in basekeys])}=\n' for _ in range(rnd.randint(0, 2)))
                # the near miss with an ordinary value, with an empty value only, assigned and then reset, reset and then assigned
                form = rnd.choice([f'{nm}=x\n', f'{nm}=\n', f'{nm}=x\n{nm}=\n', f'{nm}=\n{nm}=x\n', f'{nm}=""\n', f'{nm}= \n'])
                out.append((ty, base + pre + form + 'Zzz=1\n', nm, G.SEC[ty]))
                if rnd.random() < 0.3:
                    # the section that holds the key is opened again later with nothing (or only a comment) in it: still the same section
                    again = rnd.choice(['[' + G.SEC[ty] + ']\n', '[Service]\nRestart=no\n[' + G.SEC[ty] + ']\n# Foo=1\n', '[' + G.SEC[ty] + ']\n\n[Install]\n'])
                    out.append((ty, base + pre + form + again, nm, G.SEC[ty]))
        # every key that is documented for some *other* unit type (or for [Quadlet], [Service]) and not for this one, once, in every
        # run: a key borrowed from another type is the realistic mistake, and a table of exceptions would be keyed by such names
        for k in others:
            out.append((ty, base + f'{k}=x\n', k, G.SEC[ty]))
        # [Quadlet] section
        for nm in ['defaultdependencies', 'DefaultDependency', 'Foo', 'Image']:
            for val in ['1', '', '1\n' + nm + '=']:
                out.append((ty, base + f'[Quadlet]\nDefaultDependencies=no\n{nm}={val}\n', nm, 'Quadlet'))
                # … wherever [Quadlet] stands and whatever else the file holds: before the unit's own section, with an empty own
                # section, with no own section at all (a .volume, .network or .pod needs none), after other sections
                q = f'[Quadlet]\n{nm}={val}\n'
                hdr = '[' + G.SEC[ty] + ']\n'
                layouts = [q + base, '[Service]\nRestart=always\n' + q + base, base + '[Unit]\nDescription=d\n' + q + '[Install]\nWantedBy=default.target\n']
                if not G.BASE[ty]:
                    # a unit that is valid without any key of its own (otherwise another error may legitimately come first)
                    layouts += [q, hdr + q, q + hdr, '[Service]\nRestart=always\n' + q, '[Unit]\nDescription=d\n' + q + '[Install]\nWantedBy=default.target\n']
                layouts += [q + base + '[Quadlet]\n', q + '[Quadlet]\n;c\n' + base]
                for layout in layouts:
                    out.append((ty, layout, nm, 'Quadlet'))
        # every documented key on its own: never an UnknownKey rejection
        for k in keys:
            out.append((ty, base + f'{k}=x\n', None, None))
        # clean units: documented keys only, harmless values
        for _ in range(60 if ctx.thorough else 15):
            out.append((ty, G.unit(rnd, ctx.tables, ty, near_miss=0.0, extras=False), None, None))
    return out


def corr_ops(ctx):
    rnd = ctx.rnd
    ctx._c16 = cases(ctx)
    ops = []
    for ty, text, _, _ in ctx._c16:
        ops.append(f'convert\t0\t0\t{hx("/q/" + G.file_name(rnd, ty))}\t{hx(text)}')
    ctx._c16_ops = ops
    # plus general units with the generator's own near misses
    for _ in range(4000 if ctx.thorough else 800):
        ty = rnd.choice(G.TYPES)
        ops.append(f'convert\t{rnd.choice("01")}\t0\t{hx("/q/" + G.file_name(rnd, ty))}\t{hx(G.unit(rnd, ctx.tables, ty, near_miss=0.1))}')
    return ops


def project(op, out):
    return canon.canon_result(out)


def nontrivial(op, out):
    return 'UnknownKey' in out or out.startswith('ok svc')


def oracle(ctx):
    res = ctx.res
    cs = getattr(ctx, '_c16', None) or cases(ctx)
    ops = getattr(ctx, '_c16_ops', None) or [f'convert\t0\t0\t{hx("/q/x." + ty)}\t{hx(text)}' for ty, text, _, _ in cs]
    io = ctx.impl(ops)
    for (ty, text, want, sec), op, a in zip(cs, ops, io):
        res.oracle_evals += 1
        r = canon.parse_convert(a)[0]
        path = unhx(op.split('\t')[3])
        fail = None
        if want is not None:
            if r[0] != 'err' or r[1] != 'UnknownKey':
                fail = f'the undocumented key {want!r} in [{sec}] must fail the unit with an UnknownKey error; got {r[:2]}'
            elif f"'{want}'" not in r[2] or path not in r[2].replace('\\"', '"') and repr(path).strip("'") not in r[2]:
                fail = f'the error must name the key {want!r} and the file {path!r}: {r[2]!r}'
        else:
            if r[0] == 'err' and r[1] == 'UnknownKey':
                fail = f'a unit using only documented keys was rejected because of its keys: {r[2]!r}'
        if fail:
            res.oracle_failures.append(dict(op=op, input=text, impl_output=core.dec_line(a)[:600], oracle_expectation=fail))
    # the report itself, as the user sees it: the real binary, the unit in a directory whose path is short, ~500, ~1000, ~2000 bytes
    import e2e, os, shutil
    deep = []
    for depth in (0, 2, 4, 8):
        for ty, nm in (('container', 'Imagee'), ('volume', 'Lable'), ('pod', 'podname'), ('kube', 'Yamll')):
            deep.append((depth, ty, nm))
    if not ctx.thorough:
        deep = ctx.rnd.sample(deep, 8)

    def run_deep(c):
        depth, ty, nm = c
        base = e2e.fresh_dir()
        d = os.path.join(base, 'src', *['d' * 235 + str(i) for i in range(depth)])
        os.makedirs(d)
        good = '[' + G.SEC[ty] + ']\n' + ''.join(b + '\n' for b in G.BASE[ty])
        where = (depth + len(nm)) % 4   # the key comes from the unit file, from a drop-in, from a drop-in that is a symbolic link, or (3) from
        #                                   the template's drop-in directory of an instance whose base name contains a dot
        uname = 'bad-unit.' + ty if where != 3 else 'bad-unit.x@inst.' + ty
        with open(os.path.join(d, uname), 'w') as f:
            f.write(good + (nm + '=1\n' if where == 0 else ''))
        if where == 3:
            os.makedirs(os.path.join(d, 'bad-unit.x@.' + ty + '.d'))
            with open(os.path.join(d, 'bad-unit.x@.' + ty + '.d', '10-x.conf'), 'w') as f:
                f.write('[' + G.SEC[ty] + ']\n' + nm + '=1\n')
        elif where:
            os.makedirs(os.path.join(d, 'bad-unit.' + ty + '.d'))
            snippet = os.path.join(base, 'snippets', 'shared.conf') if where == 2 else os.path.join(d, 'bad-unit.' + ty + '.d', '10-x.conf')
            os.makedirs(os.path.dirname(snippet), exist_ok=True)
            with open(snippet, 'w') as f:
                f.write('[' + G.SEC[ty] + ']\n' + nm + '=1\n')
            if where == 2:
                os.symlink(snippet, os.path.join(d, 'bad-unit.' + ty + '.d', '10-x.conf'))
        out = []
        for args in (['--dry-run', '--no-kmsg-log'], ['--no-kmsg-log'], ['--no-kmsg-log', '-v']):   # (without --no-kmsg-log the report goes to the kernel log)
            rc, so, se = e2e.run_binary(args + [os.path.join(base, 'out')], os.path.join(base, 'src'))
            # "no service is generated for it": nothing printed for it in a dry run, no file for it after a normal run
            gen = ('bad-unit' in so) if '--dry-run' in args else any(f.startswith('bad-unit') for f in (os.listdir(os.path.join(base, 'out')) if os.path.isdir(os.path.join(base, 'out')) else []))
            out.append((args, rc, se + ('\n[SERVICE-GENERATED]' if gen else '')))
        shutil.rmtree(base, ignore_errors=True)
        return out
    for (depth, ty, nm), runs in zip(deep, e2e.pmap(run_deep, deep)):
        for args, rc, se in runs:
            res.oracle_evals += 1
            errs = [l for l in se.split('\n') if 'ERROR' in l]
            if '[SERVICE-GENERATED]' in se:
                res.oracle_failures.append(dict(op='e2e ' + ' '.join(args), input=dict(unit_type=ty, key=nm, directory_depth=depth), impl_output=dict(exit=rc),
                                                oracle_expectation=f'no service is generated for bad-unit.{ty} (undocumented key {nm!r})'))
            if rc != 1 or not any(f"'{nm}'" in l and 'bad-unit' in l and '.' + ty in l for l in errs):
                res.oracle_failures.append(dict(op='e2e ' + ' '.join(args), input=dict(unit_type=ty, key=nm, directory_depth=depth, path_bytes=depth * 240),
                                                impl_output=dict(exit=rc, errors=[l[:200] + ' … ' + l[-200:] if len(l) > 420 else l for l in errs][:3]),
                                                oracle_expectation=f'exit status 1 and an error line naming the key {nm!r} and the file bad-unit.{ty}'))
    # misspellings whose name has a character that no key can have ('_', '.', '!', a non-ASCII letter): still "a key that is not among the
    # documented keys" — whichever layer rejects it, the unit fails with an error naming the key and the file, and no service is generated
    odd = [(ty, nm, secn) for ty in G.TYPES for nm, secn in (('Publish_Port', None), ('Volume.Name', None), ('Image!', None), ('Default_Dependencies', 'Quadlet'))]
    if not ctx.thorough:
        odd = ctx.rnd.sample(odd, 10)

    def run_odd(c):
        ty, nm, secn = c
        base = e2e.fresh_dir()
        os.makedirs(os.path.join(base, 'src'))
        good = '[' + G.SEC[ty] + ']\n' + ''.join(b + '\n' for b in G.BASE[ty])
        with open(os.path.join(base, 'src', 'odd-unit.' + ty), 'w') as f:
            f.write(good + (f'[{secn}]\n' if secn else '') + nm + '=1\n')
        with open(os.path.join(base, 'src', 'fine.volume'), 'w') as f:
            f.write('[Volume]\n')
        rc, so, se = e2e.run_binary(['--dry-run', '--no-kmsg-log', os.path.join(base, 'out')], os.path.join(base, 'src'))
        shutil.rmtree(base, ignore_errors=True)
        return rc, so, se
    for (ty, nm, secn), (rc, so, se) in zip(odd, e2e.pmap(run_odd, odd)):
        res.oracle_evals += 1
        errs = [l for l in se.split('\n') if 'ERROR' in l]
        if rc != 1 or 'odd-unit' in so or not any(nm in l and 'odd-unit.' + ty in l for l in errs) or 'fine-volume.service' not in so:
            res.oracle_failures.append(dict(op='e2e --dry-run', input=dict(unit_type=ty, key=nm, section=secn or G.SEC[ty]),
                                            impl_output=dict(exit=rc, errors=errs[:3], printed='odd-unit' in so),
                                            oracle_expectation=f'exit status 1, an error line naming the key {nm!r} and the file odd-unit.{ty}, no service for it, the unit beside it generated'))
    # the size of the file is a dimension: an undocumented key after 64 KiB, 1 MiB, 5 MiB of comments and documented keys — in the unit or in
    # a drop-in — is found like one on the first line; and a large unit with documented keys only is accepted
    big = [(ty, size, where) for ty in G.TYPES for size in (70_000, 1_100_000, 5_300_000) for where in ('unit', 'dropin', 'none')]
    if not ctx.thorough:
        big = ctx.rnd.sample(big, 12)

    def run_big(c):
        ty, size, where = c
        base = e2e.fresh_dir()
        os.makedirs(os.path.join(base, 'src', 'big-unit.' + ty + '.d'))
        good = '[' + G.SEC[ty] + ']\n' + ''.join(b + '\n' for b in G.BASE[ty])
        pad = ('# ' + 'x' * 97 + '\n') * (size // 100) + '[' + G.SEC[ty] + ']\n'
        with open(os.path.join(base, 'src', 'big-unit.' + ty), 'w') as f:
            f.write(good + (pad + 'NoSuchKey=1\n' if where == 'unit' else pad if where == 'none' else ''))
        if where == 'dropin':
            with open(os.path.join(base, 'src', 'big-unit.' + ty + '.d', '10-big.conf'), 'w') as f:
                f.write(pad + 'NoSuchKey=1\n')
        rc, so, se = e2e.run_binary(['--dry-run', '--no-kmsg-log', os.path.join(base, 'out')], os.path.join(base, 'src'), timeout=60)
        shutil.rmtree(base, ignore_errors=True)
        return rc, so, se
    for (ty, size, where), (rc, so, se) in zip(big, e2e.pmap(run_big, big)):
        res.oracle_evals += 1
        errs = [l for l in se.split('\n') if 'ERROR' in l]
        if where == 'none':
            ok = rc == 0 and 'big-unit' in so
            want = 'exit status 0 and a service (documented keys only)'
        else:
            ok = rc == 1 and 'big-unit' not in so and any('NoSuchKey' in l and 'big-unit.' + ty in l for l in errs)
            want = 'exit status 1, an error line naming the key NoSuchKey and the file, no service'
        if not ok:
            res.oracle_failures.append(dict(op='e2e --dry-run', input=dict(unit_type=ty, bytes_before_the_key=size, key_in=where),
                                            impl_output=dict(exit=rc, errors=[l[:300] for l in errs[:3]], printed='big-unit' in so), oracle_expectation=want))
    res.samples.append(dict(kind='oracle-case', unit=cs[0][1], expected_unknown_key=cs[0][2]))
    ctx.log(f'oracle: {res.oracle_evals} evaluations, {len(res.oracle_failures)} failures')
