"""C05 — list-valued keys are split into words exactly as systemd splits them"""
import json, os, re
import core, gen
from core import hx, unhx

LEAN_MODULE = 'QM.Props.C05Cmd'
THEOREMS = ['P.C05_args_eq_systemd', 'P.C05_strv_eq_systemd', 'P.C05_no_word_dropped', 'P.C05_rendering_reads_back',
            'P.C05_empty_word_kept', 'P.C05_high_escape_boundary',
            'P.implTbl_of_spec', 'P.implTbl_numeric', 'P.implSep_sound', 'P.implSep_complete', 'Cv.C05_network_podman_args_reach_command', 'Cv.C05_network_podman_args_all',
            'Cv.podman_args_words', 'Cv.args_words', 'Cv.C05_image_podman_args', 'Cv.C05_volume_podman_args', 'Cv.C05_pod_podman_args', 'Cv.C05_kube_podman_args',
            'Cv.C05_build_podman_args', 'Cv.C05_container_podman_args_and_exec', 'Cv.C05_container_exec_words']
ASSUMPTIONS = [
    'P.Spec.extractFirst / decode specCfg transcribe systemd extract_first_word / cunescape_one at character level (DESIGN.md appendix A)',
    'Impl.word / Impl.strvWord are hand-written models of SplitWord::next / SplitStrv::next over the separator set and escape table extracted from split.rs; tied by the split_word / split_strv correspondence',
    'values on which systemd returns -EINVAL, and escapes \\xHH / octal >= 0x80 (known finding KF-C05-1: byte vs. code point) are outside the theorems',
]
LEVEL_TEXT = ('Proof: Lean theorems C05_args_eq_systemd / C05_strv_eq_systemd — for every raw value on which the transcription of systemd\'s '
              'extract_first_word (UNQUOTE|CUNESCAPE|RELAX resp. UNQUOTE|RETAIN_ESCAPE), iterated, returns a word list, the model of the '
              'repository\'s splitter returns the same list (simulation by induction over the input; iterated by induction over the calls), hence '
              'every systemd-valid spelling of every word list reads back, and the repository\'s own rendering of any NUL-free word list does '
              '(C05_rendering_reads_back). At the command level (QM/Props/C05Cmd.lean), for all seven converter models: the words systemd finds in the effective '
              'PodmanArgs= assignments — all of them, in order, quoted-empty words included — are consecutive arguments of the generated command, after every '
              'key-derived option and directly before the positional arguments (C05_<type>_podman_args), and the words of a container\'s Exec= close its command '
              '(C05_container_exec_words). Separator set and escape table come from the source on every run. Model tied by correspondence; '
              'the specification splitter is also applied to the real splitter\'s inputs as an oracle.')
LEVEL_NOTE = ('Trusted: Lean kernel; transcription of systemd\'s splitter; extractor; correspondence on generated inputs. Known finding KF-C05-1 '
              '(escapes >= 0x80) is outside the statement proved.')
TECHNIQUE = 'Lean 4 simulation proof (repository splitter vs. systemd extract_first_word) + correspondence + spec oracle'

HIGH_ESC = re.compile(r'\\x[89a-fA-F][0-9a-fA-F]|\\[2-3][0-7][0-7]')


def raws(ctx):
    rnd = ctx.rnd
    out = list(gen.exhaustive(['a', ' ', '"', "'", '\\', 'n'], 5 if ctx.thorough else 4))
    out += ['sh -c "" foo', "a '' b", '""', "''", 'a\\ b', 'a\\', '"a', "'a b", 'a\tb\nc\rd', 'x="y z" w', '\\x41\\u00e9\\U0001d11e\\101',
            'a "b\'c" d', "foo'bar'baz", '  lead', 'trail  ', '\\s\\t', 'é ü', '\\q', '\\x4', '\\08', '\\x00', 'a;b', '%h %%']
    # numeric escapes in every spelling of their digits (lower case, UPPER CASE, mixed), in the middle of a word list: bare, inside
    # double quotes, inside single quotes — the words after the escape count as much as the word that holds it
    for cp in (0x41, 0x2d, 0x2f, 0x3a, 0x4a, 0x5c, 0x6b, 0x7e, 0x1b, 0x0a, 0x7f, 0xe9, 0x20ac, 0x1d11e, 0xabcd, 0xfffd):
        forms = ['\\u%04x' % cp, '\\u%04X' % cp, '\\U%08x' % cp, '\\U%08X' % cp] if cp <= 0xffff else ['\\U%08x' % cp, '\\U%08X' % cp]
        if cp < 0x80:
            forms += ['\\x%02x' % cp, '\\x%02X' % cp, '\\%03o' % cp]
        forms += [f[:2] + ''.join(ch.upper() if i % 2 else ch for i, ch in enumerate(f[2:])) for f in forms if f[1] in 'xuU']
        for f in forms:
            out += [f'pre {f} post last', f'"q {f}" tail end', f"'{f}' t", f'a{f}b c', f'{f}']
    n = 20000 if ctx.thorough else 4000
    al = [c for c in gen.WIDE if c != '\x00']
    for _ in range(n):
        out.append(gen.rs(rnd, 14, gen.ALPHA))
        out.append(gen.rs(rnd, 12, gen.ESC))
        out.append(gen.rs(rnd, 14, al))
    return out


def corr_ops(ctx):
    ctx._c05 = raws(ctx)
    ops = []
    for s in ctx._c05:
        ops.append('split_word\t' + hx(s))
        ops.append('split_strv\t' + hx(s))
    return ops


def nontrivial(op, out):
    return out.startswith('ok [') and ' ' in out[4:]


def oracle(ctx):
    res = ctx.res
    rs = getattr(ctx, '_c05', None) or raws(ctx)
    known = {k['id']: k for k in ctx.known}
    for kind, spec in (('split_word', 'spec_split_args'), ('split_strv', 'spec_split_strv')):
        ops = [kind + '\t' + hx(s) for s in rs]
        io = ctx.impl(ops)
        so = ctx.model([spec + '\t' + hx(s) for s in rs])
        outside = 0
        for s, op, a, b in zip(rs, ops, io, so):
            res.oracle_evals += 1
            if not b.startswith('ok '):
                outside += 1      # systemd returns -EINVAL (or the value has an escape >= 0x80): outside the statement
                continue
            if a != b:
                res.oracle_failures.append(dict(op=op, input=s, impl_output=core.dec_line(a),
                                                oracle_expectation='systemd ' + spec[11:] + ' splitting: ' + core.dec_line(b)))
        res.notes.append(f'{kind}: {len(rs)} raw values, {outside} outside the specification (EINVAL or escape >= 0x80)')
    # through the unit API, values spread over several assignments
    rnd = ctx.rnd
    ok_raw = [s for s in rs if '\n' not in s and s == s.strip() and not s.endswith('\\') and s and '\r' not in s and '\x0b' not in s
              and '\x0c' not in s and ' ' not in s and '\x85' not in s][:3000]
    cases = []
    for _ in range(800 if ctx.thorough else 200):
        vals = [rnd.choice(ok_raw) for _ in range(rnd.randint(1, 3))]
        cases.append(vals)
    for lk, spec in (('lookup_all_args', 'spec_split_args'), ('lookup_all_strv', 'spec_split_strv')):
        ops = ['unit\tload\t' + hx('[S]\n' + ''.join(f'K={v}\n' for v in vals)) + f'\t{lk}\t' + hx('S') + '\t' + hx('K') for vals in cases]
        io = ctx.impl(ops)
        flat = [v for vals in cases for v in vals]
        so = dict(zip(flat, ctx.model([spec + '\t' + hx(v) for v in flat])))
        for vals, op, a in zip(cases, ops, io):
            res.oracle_evals += 1
            if a.startswith('err'):
                continue  # rejected at load: not "accepted by the unit parser"
            if not all(so[v].startswith('ok [') for v in vals):
                continue
            want = 'ok [' + ' '.join(t for v in vals for t in so[v][4:-1].split(' ') if t) + ']'
            if a != want:
                res.oracle_failures.append(dict(op=op, input=vals, impl_output=core.dec_line(a), oracle_expectation=core.dec_line(want)))
    # name=value keys (Environment, Label, Annotation, Options) are argument-style too: the words of every assignment — of one word or of
    # several, with or without quotes — are systemd's words (escapes decoded), each split at its first '='; the last value per name counts
    kv_cases = []
    for _ in range(600 if ctx.thorough else 200):
        n = rnd.choice([1, 1, 1, 2, 3])
        words = []
        for _i in range(n):
            name = rnd.choice(['A', 'B', 'GREETING', 'k.e-y'])
            val = rnd.choice(['v', 'hello\\x20world', 'tab\\there', 'back\\\\slash', 'oct\\101', 'u\\u00e9', 'sp\\sace', 'dash\\x2dx', 'plain', '', 'eq=in=value'])
            w = name + '=' + val
            words.append(rnd.choice([w, w, '"' + w + '"', "'" + w + "'"]) if ' ' not in w else '"' + w + '"')
        kv_cases.append([' '.join(words)] + ([rnd.choice(['A=later', 'B=\\x41'])] if rnd.random() < 0.3 else []))
    kops = ['unit\tload\t' + hx('[S]\n' + ''.join(f'K={v}\n' for v in vals)) + '\tlookup_all_key_val\t' + hx('S') + '\t' + hx('K') for vals in kv_cases]
    kio = ctx.impl(kops)
    kflat = sorted({v for vals in kv_cases for v in vals})
    kso = dict(zip(kflat, ctx.model(['spec_split_args\t' + hx(v) for v in kflat])))
    for vals, op, a in zip(kv_cases, kops, kio):
        res.oracle_evals += 1
        if a.startswith('err') or not all(kso[v].startswith('ok [') for v in vals):
            continue
        want = {}
        for v in vals:
            for t in kso[v][4:-1].split(' '):
                if t and '=' in unhx(t):
                    k_, v_ = unhx(t).split('=', 1)
                    want.pop(k_, None)
                    want[k_] = v_
        toks = [unhx(t) for t in a[4:-1].split(' ') if t] if a.startswith('ok [') else None
        got = dict(zip(toks[0::2], toks[1::2])) if toks is not None and len(toks) % 2 == 0 else None
        if got != want:
            res.oracle_failures.append(dict(op=op, input=vals, impl_output=core.dec_line(a), oracle_expectation=f'name=value pairs {want} (systemd words of each assignment, escapes decoded, split at the first "=", last value per name)'))
    # through the real converters: every key the documented tables read as a *plain list* (lookup_all_strv) keeps backslash
    # sequences literally and splits at white space only; every *argument-style* key (lookup_all_args) decodes them. The
    # kind of each key comes from the frozen specification (spec/keys.json), the words from the specification splitters.
    import canon, gen_units as G
    spec_keys = json.load(open(os.path.join(core.VERIF, 'spec', 'keys.json')))
    kinds = {}
    for fn, kind, sec, key in spec_keys.get('lookup_kinds', []):
        if kind in ('lookup_all_strv', 'lookup_all_args'):
            kinds.setdefault((key, kind), set()).add(fn)
    FN_TY = {'from_container_unit': 'container', 'from_kube_unit': 'kube', 'from_pod_unit': 'pod', 'from_build_unit': 'build', 'from_volume_unit': 'volume',
             'from_network_unit': 'network', 'from_image_unit': 'image', 'handle_user_mappings': 'container', 'handle_user_remap': 'container',
             'handle_log_opt': 'container', 'handle_podman_args': 'container', 'get_base_podman_command': 'container'}
    value = 'pl\\x41in "q r" es\\x2dc t\\tab'
    conv_cases = []
    for (key, kind), fns in sorted(kinds.items()):
        for fn in sorted(fns):
            ty = FN_TY.get(fn)
            if ty is None or key not in ctx.tables['supported'][G.SUP[ty]] or key in ('Mount', 'RemapUid', 'RemapGid'):
                continue
            extra = 'RemapUsers=manual\n' if key in ('UIDMap', 'GIDMap') and False else ''
            text = '[' + G.SEC[ty] + ']\n' + ''.join(b + '\n' for b in G.BASE[ty]) + extra + f'{key}={value}\n'
            conv_cases.append((ty, key, kind, text))
    cops = [f'convert\t0\t0\t{hx("/q/k." + ty)}\t{hx(text)}' for ty, key, kind, text in conv_cases]
    cio = ctx.impl(cops)
    words_strv = [unhx(t) for t in ctx.model(['spec_split_strv\t' + hx(value)])[0][4:-1].split(' ') if t]
    words_args = [unhx(t) for t in ctx.model(['spec_split_args\t' + hx(value)])[0][4:-1].split(' ') if t]
    for (ty, key, kind, text), op, a in zip(conv_cases, cops, cio):
        r = canon.parse_convert(a)[0]
        if r[0] != 'svc':
            continue
        res.oracle_evals += 1
        execs = [v for k, v in r[2].get('Service', []) if k.startswith('ExecStart')]
        argv = []
        for e in execs:
            b = ctx.model(['spec_split_exec\t' + hx(e)])[0]
            argv += [unhx(t) for t in b[4:-1].split(' ') if t] if b.startswith('ok [') else []
        want = words_strv if kind == 'lookup_all_strv' else words_args
        missing = [w for w in want if not any(w.lower() in x.lower() for x in argv)]
        if missing:
            res.oracle_failures.append(dict(op=op, input=text, impl_output=str(argv)[:600],
                                            oracle_expectation=f'{key} is read as {"a plain list (backslashes literal)" if kind == "lookup_all_strv" else "argument words (escapes decoded)"}: the words {want} reach the command; missing {missing}'))
    # an explicitly quoted empty word is a word: for the keys whose words become arguments one by one it arrives as an empty argument
    # (between its neighbours), for every key it must not take a neighbour with it
    ecases = []
    for (key, kind), fns in sorted(kinds.items()):
        for fn in sorted(fns):
            ty = FN_TY.get(fn)
            if ty is None or key not in ctx.tables['supported'][G.SUP[ty]] or key in ('Mount', 'RemapUid', 'RemapGid') or kind != 'lookup_all_args':
                continue
            ecases.append((ty, key, '[' + G.SEC[ty] + ']\n' + ''.join(b + '\n' for b in G.BASE[ty]) + f'{key}=e-first "" e-mid \'\' e-last\n'))
    eops = [f'convert\t0\t0\t{hx("/q/e." + ty)}\t{hx(text)}' for ty, key, text in ecases]
    for (ty, key, text), op, a in zip(ecases, eops, ctx.impl(eops)):
        r = canon.parse_convert(a)[0]
        if r[0] != 'svc':
            continue
        res.oracle_evals += 1
        argv = []
        for e in [v for k, v in r[2].get('Service', []) if k.startswith('ExecStart')]:
            b = ctx.model(['spec_split_exec\t' + hx(e)])[0]
            argv += [unhx(t) for t in b[4:-1].split(' ') if t] if b.startswith('ok [') else []
        pos = [i for i, x in enumerate(argv) if any(w in x for w in ('e-first', 'e-mid', 'e-last'))]   # (a key may decorate its words: paths, name=value)
        fail = None
        if len(pos) != 3 or not all(w in argv[i] for w, i in zip(('e-first', 'e-mid', 'e-last'), pos)):
            fail = f'the three non-empty words do not all arrive, in order: {argv}'
        elif key in ('PodmanArgs', 'GlobalArgs', 'Exec') and argv[pos[0]:pos[2] + 1] != ['e-first', '', 'e-mid', '', 'e-last']:
            fail = f'the words of {key} become arguments one by one, the empty ones included: {argv[pos[0]:pos[2] + 1]}'
        if fail:
            res.oracle_failures.append(dict(op=op, input=text, impl_output=str(argv)[:500], oracle_expectation=fail))
    # the same word more than once — next to itself, and again later — is as many words
    rcases = []
    for (key, kind), fns in sorted(kinds.items()):
        for fn in sorted(fns):
            ty = FN_TY.get(fn)
            if ty is None or key not in ctx.tables['supported'][G.SUP[ty]] or key in ('Mount', 'RemapUid', 'RemapGid', 'AddDevice'):
                continue
            rcases.append((ty, key, '[' + G.SEC[ty] + ']\n' + ''.join(b + '\n' for b in G.BASE[ty]) + f'{key}=r-one r-one r-two "r-one"\n{key}=r-two\n'))
    rops = [f'convert\t0\t0\t{hx("/q/r." + ty)}\t{hx(text)}' for ty, key, text in rcases]
    for (ty, key, text), op, a in zip(rcases, rops, ctx.impl(rops)):
        r = canon.parse_convert(a)[0]
        if r[0] != 'svc':
            continue
        res.oracle_evals += 1
        argv = []
        for e in [v for k, v in r[2].get('Service', []) if k.startswith('ExecStart')]:
            b = ctx.model(['spec_split_exec\t' + hx(e)])[0]
            argv += [unhx(t) for t in b[4:-1].split(' ') if t] if b.startswith('ok [') else []
        n1, n2 = sum('r-one' in x.lower() for x in argv), sum('r-two' in x.lower() for x in argv)
        if key in ('Environment', 'Label', 'Annotation', 'Options', 'Sysctl', 'Secret') and (n1, n2) in ((1, 1), (3, 2)):
            continue   # (name=value keys keep one value per name: a word without '=' is a name)
        if (n1, n2) != (3, 2):
            res.oracle_failures.append(dict(op=op, input=text, impl_output=str(argv)[:500], oracle_expectation=f'{key}: the word r-one three times and r-two twice (got {n1} and {n2})'))
    # … and however the assignment is spelled in the file: the words on continued, indented lines — words that look like section
    # headers, comments or assignments when they start a physical line (indented, so they do not: KF-C03-1 is column 0 only)
    ML_WORDS = ['alpha', '[1,2,3]', 'be\\x41ta', '"q r"', '[z', '#nocomment', ';semi', 'k=v', '[ f', 'x1', ']', 'omega']   # (no word starts with '-': AddDevice reads that as "optional")
    ml_cases = []
    for (key, kind), fns in sorted(kinds.items()):
        for fn in sorted(fns):
            ty = FN_TY.get(fn)
            if ty is None or key not in ctx.tables['supported'][G.SUP[ty]] or key in ('Mount', 'RemapUid', 'RemapGid'):
                continue
            words = [rnd.choice(ML_WORDS) for _ in range(rnd.randint(3, 6))]
            # at least one continued line begins (after its indentation) with a word that would open a section in column 0
            force = rnd.randrange(1, len(words))
            words[force] = rnd.choice(['[1,2,3]', '[z', '[ f', '[alpha,beta]', '[::1]:80'])
            spelled, one_line = words[0], words[0]
            for wi, w in enumerate(words[1:], 1):
                brk = rnd.random() < 0.6 or wi == force
                spelled += (' \\\n' + rnd.choice(['  ', '\t', ' ', '    ']) if brk else ' ') + w
                one_line += ' ' + w
            text = '[' + G.SEC[ty] + ']\n' + ''.join(b + '\n' for b in G.BASE[ty]) + f'{key}={spelled}\n'
            ml_cases.append((ty, key, kind, text, one_line))
    mops = [f'convert\t0\t0\t{hx("/q/m." + ty)}\t{hx(text)}' for ty, key, kind, text, one in ml_cases]
    mio = ctx.impl(mops)
    for (ty, key, kind, text, one), op, a in zip(ml_cases, mops, mio):
        r = canon.parse_convert(a)[0]
        if r[0] != 'svc':
            continue
        res.oracle_evals += 1
        want = [unhx(t) for t in ctx.model([('spec_split_strv' if kind == 'lookup_all_strv' else 'spec_split_args') + '\t' + hx(one)])[0][4:-1].split(' ') if t]
        execs = [v for k, v in r[2].get('Service', []) if k.startswith('ExecStart')]
        argv = []
        for e in execs:
            b = ctx.model(['spec_split_exec\t' + hx(e)])[0]
            argv += [unhx(t) for t in b[4:-1].split(' ') if t] if b.startswith('ok [') else []
        missing = [w for w in want if not any(w.lower() in x.lower() for x in argv)]
        if missing or sorted(r[3]) != sorted(set(r[3])) or any(sec.startswith(('1', 'z', ' ')) for sec in r[3]):
            res.oracle_failures.append(dict(op=op, input=text, impl_output=str(argv)[:500] + f' sections {r[3]}',
                                            oracle_expectation=f'{key} spelled over several lines is the list {want}: every word reaches the command (missing {missing}) and no line of the value opens a section'))
    # … and wherever the assignment is written: the same units with the list assignment moved into a drop-in (merged through
    # load_dropins_from, where the raw text must survive unchanged) generate the same services
    import filespell
    LISTS = [value, 'a "b c" d', "it's 'x y' z", 'k="v w" l=x', 'a\tb  c', 't1\tt2', '"" e f', 'm="0 1000"', 'x\\\\y "p\\"q"', "'s t'u v"]
    sets = []
    for ty, key, kind, text in conv_cases:
        for _ in range(3 if ctx.thorough else 1):
            stem = rnd.choice(['k', 'k', 'tpl@i'])
            sets.append({f'{stem}.{ty}': '[' + G.SEC[ty] + ']\n' + ''.join(b + '\n' for b in G.BASE[ty]) + f'{key}={rnd.choice(LISTS)}\n'
                         + (f'{key}={rnd.choice(LISTS)}\n' if rnd.random() < 0.4 else '')})
    filespell.compare(ctx, sets, filespell.DROPIN_WAYS, 'C05 list assignments in drop-ins')
    # the observation point "symlinks created from WantedBy= / Alias= word lists": a normal run of the real binary; every word of the
    # lists gets its link — a word that is ignored for its own reasons (it holds a '/') takes no other word with it
    import e2e, shutil
    IW = ['first.target', 'multi-user.target', '"two words.target"', "'sq.target'", 'sub/dir.target', '../up.target', 'es\\x2dc.target', 'last.target', 'é.target', '/abs.target']
    icases = []
    for _ in range(80 if ctx.thorough else 24):
        ws = {k: [rnd.choice(IW) for _ in range(rnd.randint(1, 5))] for k in ('WantedBy', 'RequiredBy')}
        ws['Alias'] = [rnd.choice(['alias-one.service', '"alias two.service"', "'sq-alias.service'", 'es\\x2dcaped.service', 'é-alias.service']) for _ in range(rnd.randint(0, 3))]
        text = '[Container]\nImage=localhost/i\n[Install]\n'
        for k, words in ws.items():
            if not words:
                continue
            cut = rnd.randint(0, len(words))
            text += f'{k}=' + ' '.join(words[:cut]) + '\n' + (f'{k}=' + rnd.choice([' ', '\t', '  ']).join(words[cut:]) + '\n' if words[cut:] else '')
        icases.append((ws, text))

    def run_install(c):
        base = e2e.fresh_dir()
        e2e.write_tree(base, {'src/a.container': c[1]})
        out = os.path.join(base, 'out')
        rc, so, se = e2e.run_binary(['--no-kmsg-log', out], os.path.join(base, 'src'))
        links = set()
        for dp, dns, fns in os.walk(out):
            for n in dns + fns:
                if os.path.islink(os.path.join(dp, n)):
                    links.add(os.path.relpath(os.path.join(dp, n), out))
        shutil.rmtree(base, ignore_errors=True)
        return rc, links
    plain = lambda w: unhx(ctx.model(['spec_split_strv\t' + hx(w)])[0][4:-1].split(' ')[0])
    for (ws, text), (rc, links) in zip(icases, e2e.pmap(run_install, icases)):
        res.oracle_evals += 1
        want = set()
        for k, suffix in (('WantedBy', '.wants'), ('RequiredBy', '.requires')):
            for w in ws[k]:
                pw = plain(w)
                if '/' not in pw:
                    want.add(f'{pw}{suffix}/a.service')
        want |= {plain(w) for w in ws['Alias']}
        if links != want:
            res.oracle_failures.append(dict(op='e2e install', input=text, impl_output=dict(exit=rc, links=sorted(links)),
                                            oracle_expectation=f'one link per word without a path separator: {sorted(want)} (missing {sorted(want - links)}, unexpected {sorted(links - want)})'))
    # known finding KF-C05-1: re-confirm on its recorded example
    for kid, k in known.items():
        ex = json.load(open(os.path.join(core.VERIF, 'known_findings.d', k['example'])))
        a = ctx.impl([ex['op']])[0]
        if a == ex['impl_output_deviating']:
            res.known_hits[kid] = k['what']
    res.samples.append(dict(kind='oracle-case', raw=rs[len(rs) // 3], note='compared with Spec.extractFirst, iterated'))
    ctx.log(f'oracle: {res.oracle_evals} evaluations, {len(res.oracle_failures)} failures')
