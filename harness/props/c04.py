"""C04 — single-valued keys are unquoted as documented in systemd.syntax"""
import core, gen
from core import hx, unhx

LEAN_MODULE = 'QM.Props.C04'
THEOREMS = ['P.C04_reads_back', 'P.C04_wholly_quoted', 'P.C04_bare', 'P.C04_escape_forms', 'P.C04_dq', 'P.C04_has_spelling', 'P.C04_simple_escapes', 'P.C04_hex_escape', 'P.C04_errors', 'P.C04_nested_quote_kept',
            'P.quotedTbl_of_spec']
ASSUMPTIONS = [
    'P.unq is a hand-written model of Quoted::parse_and_unquote over the escape table extracted from quoted.rs; tied to the code by the unquote correspondence (random raw strings, escape-heavy strings, and generated spellings)',
    'C04_reads_back is parametric in which escape forms denote which character (EscOK); EscOK is proved for the single-letter table and \\xHH, the \\u / \\U / octal forms are covered by the oracle (an independent Python spelling generator)',
    '"after whitespace" is decided by the code on the decoded text and for space, tab and newline only; spellings whose items are separated by other white space are not claimed',
]
LEVEL_TEXT = ('Proof: Lean theorem C04_reads_back — every documented spelling of a value (any sequence of double- or single-quoted runs that '
              'start at the beginning or after whitespace and bare runs, with C-style escapes anywhere; inside quotes everything literal except the '
              'closing quote and the backslash, so the other quote character is kept) is read by the model of unquote_value as exactly the string it '
              'denotes; induction over segments and pieces in every quote state, no size bound; wholly double-quoted, wholly single-quoted, bare and '
              'mixed spellings are instances. C04_dq / C04_has_spelling: every NUL-free string has such a spelling. Escape table extracted from the '
              'source on every run. Model tied by correspondence; an independent spelling generator is the oracle on the real unquote_value and lookup.')
LEVEL_NOTE = 'Trusted: Lean kernel; extractor; correspondence on generated inputs; the Python spelling generator as statement of systemd.syntax for the non-proved spellings.'
TECHNIQUE = 'Lean 4 proof (double-quoted spelling round trip, escape denotations) + correspondence + independent spelling oracle'

TABLE = {'\x07': 'a', '\x08': 'b', '\x0c': 'f', '\n': 'n', '\r': 'r', '\t': 't', '\x0b': 'v', '\\': '\\', '"': '"', "'": "'", ' ': 's'}
WS_ALL = ' \t\n\r\x0b\x0c'


def esc_forms(rnd, c):
    o = ord(c)
    forms = []
    if c in TABLE:
        forms.append('\\' + TABLE[c])
    if o < 0x80:
        forms.append('\\x%02x' % o)
        forms.append('\\x%02X' % o)
        forms.append('\\%03o' % o)
    if o <= 0xffff and not (0xd800 <= o <= 0xdfff):
        forms.append('\\u%04x' % o)
    forms.append('\\U%08x' % o)
    return forms


def spell_quoted(rnd, s, q):
    out = q
    for c in s:
        if c == q or c == '\\' or rnd.random() < 0.15:
            out += rnd.choice(esc_forms(rnd, c))
        else:
            out += c
    return out + q


def spell_bare(rnd, s, prev):
    """prev: last decoded character before this item (None at the start of the value)"""
    out = ''
    for c in s:
        must = c == '\\' or c in WS_ALL or (c in '"\'' and (prev is None or prev in WS_ALL))
        if must or rnd.random() < 0.15:
            out += rnd.choice(esc_forms(rnd, c))
        else:
            out += c
        prev = c
    return out


def spell(rnd, s):
    """a documented spelling of s: items (quoted or bare) separated by the literal runs of space/tab of s"""
    # tokens: alternating non-separator runs and separator runs
    toks, cur, sep = [], '', None
    for c in s:
        issep = c in ' \t'
        if sep is None or issep == sep:
            cur += c
        else:
            toks.append((sep, cur))
            cur = c
        sep = issep
    if cur or not toks:
        toks.append((bool(sep), cur))
    # randomly merge item sep item into one item (which then must be quoted)
    merged = []
    for t in toks:
        if merged and rnd.random() < 0.25 and not (merged[-1][0] and not merged[-1][2]) and len(merged) >= 1:
            merged[-1] = (False, merged[-1][1] + t[1], True)
        else:
            merged.append((t[0], t[1], False))
    out, prev = '', None
    n = len(merged)
    for i, (issep, text, mustq) in enumerate(merged):
        if issep and not mustq:
            out += text
        else:
            has_sep = any(c in ' \t' for c in text)
            style = rnd.choice(['dq', 'sq', 'bare'])
            if text == '':
                style = rnd.choice(['dq', 'sq'])
            # a quoted item must start at the beginning or after whitespace and end before whitespace or at the end
            can_quote = (prev is None or prev in ' \t') and (i + 1 == n or merged[i + 1][0])
            if style != 'bare' and can_quote:
                out += spell_quoted(rnd, text, '"' if style == 'dq' else "'")
            else:
                out += spell_bare(rnd, text, prev)
        if text:
            prev = text[-1]
    return out


def spell_plain(rnd):
    """(string, spelling) with no escape at all: plain words separated by blanks and tabs, some items (one or more words) wholly
    quoted with either kind of quote, the others bare — the spellings a person writes, and the ones a fast path would serve"""
    words = [rnd.choice(['web', 'front', 'end', 'a', '-c', 'exit', '0', 'k=v', "it's", 'x"y', 'é', '%h']) for _ in range(rnd.randint(1, 5))]
    seps = [rnd.choice([' ', ' ', '\t', '  ', '\t\t', ' \t']) for _ in range(len(words) - 1)]
    s, sp, i = '', '', 0
    while i < len(words):
        j = i + 1
        while j < len(words) and rnd.random() < 0.3:
            j += 1
        item = words[i]
        for k in range(i + 1, j):
            item += seps[k - 1] + words[k]
        q = rnd.choice(['"', "'", '', '']) if j == i + 1 else rnd.choice(['"', "'"])
        if q and q in item:
            q = '"' if q == "'" else "'"
        if q and q in item:
            q = ''
            j = i + 1
            item = words[i]
        if not q and (item[0] in '"\'' ):
            q = '"' if item[0] == "'" else "'"
        s += item
        sp += q + item + q
        if j < len(words):
            s += seps[j - 1]
            sp += seps[j - 1]
        i = j
    return s, sp


def targets(ctx):
    rnd = ctx.rnd
    out = list(gen.exhaustive(gen.ALPHA_SMALL, 3))
    out += ["sh -c 'exit 1'", 'a "b c" d', "it's", '"', "'", '\\', ' ', 'a  b', '\ta', 'é "ü" ', '–𝄞', 'a\nb', "x='y z'", '%h/a b', 'a\\b']
    al = [c for c in gen.WIDE if c != '\x00']
    for _ in range(12000 if ctx.thorough else 2500):
        out.append(gen.rs(rnd, rnd.choice([4, 8, 20]), rnd.choice([gen.ALPHA, al])))
    return out


EDGE_ESCAPES = ['\\ud7ff', '\\ud800', '\\udbff', '\\udc00', '\\udfff', '\\ue000', '\\ud83d\\ude00', '\\U0000d800', '\\U0000dfff', '\\U0010ffff', '\\U00110000',
                '\\Uffffffff', '\\U7fffffff', '\\U80000000', '\\u0000', '\\U00000000', '\\x00', '\\000', '\\0', '\\377', '\\400', '\\777', '\\x7f', '\\x80', '\\xff',
                '\\x', '\\xg', '\\u12', '\\u12g4', '\\U1234', '\\q', '\\', '\\8', '\\18']


def corr_ops(ctx):
    rnd = ctx.rnd
    ctx._c04 = [(s, spell(rnd, s)) for s in targets(ctx) for _ in range(2)]
    ops = ['unquote\t' + hx(sp) for _, sp in ctx._c04]
    n = 20000 if ctx.thorough else 4000
    for _ in range(n):
        ops.append('unquote\t' + hx(gen.rs(rnd, 12, gen.ESC)))
        ops.append('unquote\t' + hx(gen.rs(rnd, 12, gen.WIDE)))
    for s in gen.exhaustive(['a', ' ', '"', "'", '\\', 'x', '4', 's'], 5 if ctx.thorough else 4):
        ops.append('unquote\t' + hx(s))
    # escapes at the edges of what they can denote: surrogates, beyond U+10FFFF, NUL in every form, truncated forms —
    # alone, inside either kind of quotes, and between text
    for e in EDGE_ESCAPES:
        for t in (e, '"' + e + '"', "'" + e + "'", 'a' + e + 'b', 'a ' + e, e + e):
            ops.append('unquote\t' + hx(t))
    return ops


def nontrivial(op, out):
    return out.startswith('ok') and any(t in op for t in ('22', '27', '5c'))


# single-valued keys whose value is consumed by *another* unit: (type of the unit that has the key, its lines with {} for the
# spelling, the referring container's line, what the referrer's command line must contain for the string s)
HANDED_ON = [
    ('image', 'Image=quay.io/x/y\nImageTag={}', 'Image=n.image', lambda s, av: av[-1] == s, 'the image name (last argument) is the ImageTag'),
    ('build', 'File=/opt/Containerfile\nImageTag={}', 'Image=n.build', lambda s, av: av[-1] == s, 'the image name (last argument) is the build\'s ImageTag'),
    ('volume', 'VolumeName={}', 'Image=localhost/img\nVolume=n.volume:/d', lambda s, av: any(av[i] == '-v' and av[i + 1] == s + ':/d' for i in range(len(av) - 1)), '-v <VolumeName>:/d'),
    ('network', 'NetworkName={}', 'Image=localhost/img\nNetwork=n.network', lambda s, av: any(av[i] == '--network' and av[i + 1] == s for i in range(len(av) - 1)), '--network <NetworkName>'),
    ('container', 'Image=localhost/img\nContainerName={}', 'Image=localhost/img\nNetwork=n.container', lambda s, av: any(av[i] == '--network' and av[i + 1] == 'container:' + s for i in range(len(av) - 1)), '--network container:<ContainerName>'),
]


def call_sites(ctx, sel):
    """the observation point "the option value in the generated ExecStart": every single-valued key of every unit type that
    is passed on as an option value, written with a documented spelling, arrives as the string — in the unit's own command
    and, for the naming keys, in the command of a unit that refers to it"""
    from props import c02
    import canon, gen_units as G
    res, rnd = ctx.res, ctx.rnd
    if not sel:
        return
    ops, metas = [], []
    for ty in G.TYPES:
        for key, kind, spec in c02.key_specs(ty):
            if kind != 'str':
                continue
            for s, sp in rnd.sample(sel, min(len(sel), 6 if ctx.thorough else 2)):
                text = '[' + G.SEC[ty] + ']\n' + '\n'.join(G.BASE[ty] + [f'{key}={sp}']) + '\n'
                ops.append(f'convert\t0\t0\t{hx("/q/a." + ty)}\t{hx(text)}')
                metas.append((f'{key}= of a .{ty}', s, sp, text, lambda s, av, spec=spec: any(av[i] == spec and av[i + 1] == s for i in range(len(av) - 1)), f'{spec} <the string>'))
    # … and the single-valued keys with a handler of their own: the object of the unit (Yaml=, File=, Image=, Rootfs=)
    pool = [p for p in sel if '/' not in p[0] and p[0] not in ('.', '..') and not p[0].startswith(('%', '-')) and not p[0].endswith(('.image', '.build'))]
    OBJ = [('kube', 'Yaml', [], lambda full, av: av[-1] == full, 'the path is the last argument'),
           ('build', 'File', ['ImageTag=localhost/t'], lambda full, av: any(av[i] == '--file' and av[i + 1] == full for i in range(len(av) - 1)), '--file <path>'),
           ('container', 'Rootfs', [], lambda full, av: any(av[i] == '--rootfs' and av[i + 1] == full for i in range(len(av) - 1)), '--rootfs <path>'),
           ('image', 'Image', [], lambda full, av: av[-1] == full, 'the image is the last argument')]
    for ty, key, base_lines, ok, what in OBJ:
        for s_, _sp in rnd.sample(pool, min(len(pool), 24 if ctx.thorough else 8)):
            full = '/p/' + s_
            spf = spell(rnd, full)
            if '\n' in spf or spf != spf.strip() or spf.endswith('\\'):
                continue
            text = '[' + G.SEC[ty] + ']\n' + '\n'.join(base_lines + [f'{key}={spf}']) + '\n'
            ops.append(f'convert\t0\t0\t{hx("/q/o." + ty)}\t{hx(text)}')
            metas.append((f'{key}= of a .{ty}', full, spf, text, ok, what))
    for ty, lines, referrer, ok, what in HANDED_ON:
        # a ContainerName with a specifier other than %N has no resolved name by design (get_container_resource_name): the
        # referrer is rejected, which is outside this statement
        pool = [p for p in sel if '%' not in p[0]] if ty == 'container' else sel
        for s, sp in rnd.sample(pool, min(len(pool), 40 if ctx.thorough else 12)):
            t0 = '[' + G.SEC[ty] + ']\n' + lines.format(sp) + '\n'
            t1 = '[Container]\n' + referrer + '\n'
            ops.append(f'convert\t0\t0,1\t{hx("/q/n." + ty)}\t{hx(t0)}\t{hx("/q/r.container")}\t{hx(t1)}')
            metas.append((f'{lines.split("=")[-2].split(chr(10))[-1]}= of a .{ty}, used by a container that refers to it', s, sp, t0 + '--- r.container\n' + t1, ok, what))
    outs = ctx.impl(ops)
    # the argument vector of the last converted unit of each op (for a pod: of its `pod create` line)
    avs = c02.argv(ctx, [('ok ' + a[3:].split(' | ')[-1]) if a.startswith('ok ') else a for a in outs])
    for (where, s, sp, text, ok, what), op, a, av in zip(metas, ops, outs, avs):
        res.oracle_evals += 1
        if av is None:
            r = canon.parse_convert(a)
            if r and r[-1][0] == 'err' and r[-1][1] in ('UnsupportedValueForKey', 'InvalidRemapUsers', 'InvalidSubnet', 'InvalidPortFormat'):
                continue
            res.oracle_failures.append(dict(op=op, input=dict(where=where, string=s, spelling=sp, units=text), impl_output=core.dec_line(a)[:500],
                                            oracle_expectation='the unit converts (a documented spelling of a plain string)'))
            continue
        if not ok(s, av):
            res.oracle_failures.append(dict(op=op, input=dict(where=where, string=s, spelling=sp, units=text), impl_output=str(av),
                                            oracle_expectation=f'{where}: {what}, for the string {s!r} spelled {sp!r}'))
    # the empty string is a string too: its quoted spellings "" and '' denote what the empty assignment denotes, so a unit that
    # spells the value of a single-valued key that way generates exactly what the unit with `Key=` generates (alone, and after
    # an earlier non-empty assignment of the key)
    e_ops, e_meta = [], []
    for ty in G.TYPES:
        for key, kind, spec in c02.key_specs(ty):
            if kind != 'str':
                continue
            for sp_e in ('""', "''"):
                for before in ('', f'{key}=earlier\n'):
                    pair = []
                    for v in (sp_e, ''):
                        text = '[' + G.SEC[ty] + ']\n' + '\n'.join(G.BASE[ty]) + '\n' + before + f'{key}={v}\n'
                        pair.append(f'convert\t0\t0\t{hx("/q/e." + ty)}\t{hx(text)}')
                    e_ops += pair
                    e_meta.append((ty, key, sp_e, before))
    e_out = ctx.impl(e_ops)
    for i, (ty, key, sp_e, before) in enumerate(e_meta):
        res.oracle_evals += 1
        a1, a2 = e_out[2 * i], e_out[2 * i + 1]
        def execs(o):
            r = canon.parse_convert(o)
            if r and r[-1][0] == 'svc':
                return [(k, canon.canon_exec(v)) for k, v in r[-1][2].get('Service', []) if k.startswith('Exec')]
            return [x[:2] for x in r]
        if execs(a1) != execs(a2):
            res.oracle_failures.append(dict(op=e_ops[2 * i], input=dict(where=f'{key}= of a .{ty}', string='', spelling=sp_e, earlier_assignment=before),
                                            impl_output=dict(quoted_empty=core.dec_line(a1)[:600], empty_assignment=core.dec_line(a2)[:600]),
                                            oracle_expectation=f'{key}={sp_e} (a spelling of the empty string) generates what {key}= generates'))
    res.notes.append(f'call sites: {len(metas)} conversions — every string key of every type in its own command, and the naming keys ImageTag/VolumeName/NetworkName/ContainerName in the command of a referring unit')


def through_files(ctx, sel):
    """the same observation with the unit read from a *file* by the real binary (load_from_path is not on the path of the text-level
    operations): the spelling is one line of a unit file, with whatever characters it holds — control characters, CR, NEL, line
    and paragraph separators — and the option value must be the string"""
    import e2e, shutil, re as _re
    res, rnd = ctx.res, ctx.rnd
    odd = [p for p in sel if p[0] and p[0] == p[0].strip() and any(ord(c) < 0x20 or c in '\x7f\x85\xa0\u2028\u2029' for c in p[1])]
    plain = [p for p in sel if p[0] and p[0] == p[0].strip() and p not in odd]
    n = 240 if ctx.thorough else 60
    chosen = rnd.sample(odd, min(len(odd), n)) + rnd.sample(plain, min(len(plain), n // 3))
    groups = [chosen[i:i + 12] for i in range(0, len(chosen), 12)]

    def run(group):
        base = e2e.fresh_dir()
        files = {f'src/u{i}.container': f'[Container]\nImage=localhost/img\nContainerName={sp}\nHostName={sp}\n' for i, (s_, sp) in enumerate(group)}
        e2e.write_tree(base, files)
        rc, so, se = e2e.run_binary(['--dry-run', '--no-kmsg-log', os.path.join(base, 'out')], os.path.join(base, 'src'))
        shutil.rmtree(base, ignore_errors=True)
        printed, _ = e2e.split_dry_run(so)
        return rc, {os.path.basename(k): v for k, v in printed.items()}, se
    import os
    for group, (rc, printed, se) in zip(groups, e2e.pmap(run, groups)):
        lines = []
        for i in range(len(group)):
            m = _re.search(r'^ExecStart=(.*)$', printed.get(f'u{i}.service', ''), _re.M)
            lines.append(m.group(1) if m else None)
        sp_out = iter(ctx.model(['spec_split_exec\t' + hx(l) for l in lines if l is not None]))
        for (s_, sp), l in zip(group, lines):
            res.oracle_evals += 1
            if l is None:
                res.oracle_failures.append(dict(op='e2e file', input=dict(string=s_, spelling=sp), impl_output=f'exit {rc}; {e2e.error_lines(se)[:3]}',
                                                oracle_expectation='a unit file with this one-line spelling of a plain string converts'))
                continue
            b = next(sp_out)
            av = [unhx(t) for t in b[4:-1].split(' ') if t] if b.startswith('ok [') else []
            got = {f: av[i + 1] for i in range(len(av) - 1) for f in ('--name', '--hostname') if av[i] == f}
            if got.get('--name') != s_ or got.get('--hostname') != s_:
                res.oracle_failures.append(dict(op='e2e file', input=dict(string=s_, spelling=sp), impl_output=str(got),
                                                oracle_expectation=f'read from a file, ContainerName= and HostName= spelled {sp!r} reach podman as {s_!r}'))
    res.notes.append(f'through files: {len(chosen)} spellings in unit files read by the real binary ({len(odd)} candidates hold control or separator characters)')


def oracle(ctx):
    res = ctx.res
    pairs = getattr(ctx, '_c04', None)
    if pairs is None:
        pairs = [(s, spell(ctx.rnd, s)) for s in targets(ctx) for _ in range(2)]
    if ctx.deep and ctx.tier != 'thorough':
        pairs += [(s, spell(ctx.rnd, s)) for s in targets(ctx) for _ in range(4)]
    ops = ['unquote\t' + hx(sp) for _, sp in pairs]
    io = ctx.impl(ops)
    for (s, sp), op, a in zip(pairs, ops, io):
        res.oracle_evals += 1
        if a != 'ok ' + hx(s):
            res.oracle_failures.append(dict(op=op, input=dict(string=s, spelling=sp), impl_output=core.dec_line(a),
                                            oracle_expectation=f'the documented spelling {sp!r} reads back as {s!r}'))
    # through the unit API: a single-valued key written with a spelling is looked up as the string
    rnd = ctx.rnd
    sel_all = [p for p in pairs if '\n' not in p[1] and p[1] == p[1].strip() and not p[1].endswith('\\')]
    # items separated by TAB (a quoted item may follow a tab as well as a blank), in several spellings each
    for s_ in ('web\tfront end', 'sh -c\texit 0', 'a\t b c', 'x\t\ty z', 'k=v\tw x', 'a b\tc d'):
        for _ in range(6):
            sp_ = spell(rnd, s_)
            if sp_ == sp_.strip() and '\n' not in sp_:
                sel_all.append((s_, sp_))
    plain = [spell_plain(rnd) for _ in range(1200 if ctx.thorough else 300)]
    plain = [p for p in plain if p[1] == p[1].strip()]
    # (checked against the specification reader first: a bare word with a quote inside, or a quote that opens mid-item, must mean what I think)
    chk = ctx.model(['unquote\t' + hx(sp_) for _, sp_ in plain])
    sel_all += [p for p, b in zip(plain, chk) if b == 'ok ' + hx(p[0])]
    res.notes.append(f'plain spellings (no escapes; blanks and tabs between items): {sum(1 for p, b in zip(plain, chk) if b == "ok " + hx(p[0]))} of {len(plain)} generated')
    n_sel = 1500 if ctx.thorough else 400
    sel = sel_all[:n_sel // 2] + rnd.sample(sel_all[n_sel // 2:], min(len(sel_all) - n_sel // 2, n_sel // 2)) + sel_all[-len(plain) - 36:]
    ops = []
    for s, sp in sel:
        ops.append('unit\tload\t' + hx(f'[Container]\nImage={sp}\n') + '\tlookup\t' + hx('Container') + '\t' + hx('Image')
                   + '\tlookup_last\t' + hx('Container') + '\t' + hx('Image'))
    io = ctx.impl(ops)
    for (s, sp), op, a in zip(sel, ops, io):
        res.oracle_evals += 1
        want = f'ok some {hx(s)} | some {hx(s)}'
        if a != want:
            res.oracle_failures.append(dict(op=op, input=dict(string=s, spelling=sp), impl_output=core.dec_line(a),
                                            oracle_expectation=f'Image={sp} is looked up as {s!r}'))
    # every one-byte escape \001..\377 and \x01..\xff is a valid escape: it denotes *something* (the character below 0x80; the
    # byte — systemd — or the code point — this implementation — from 0x80 on, an ambiguity outside the statement, cf.
    # KF-C05-1), so the value must read back as a non-empty string, alone and inside either kind of quotes
    byte_ops, metas = [], []
    for o in range(1, 256):
        for form in ('\\%03o' % o, '\\x%02x' % o):
            for sp in (form, '"' + form + '"', "'" + form + "'", 'a' + form + 'b'):
                byte_ops.append('unquote\t' + hx(sp))
                metas.append((o, sp))
    for (o, sp), op, a in zip(metas, byte_ops, ctx.impl(byte_ops)):
        res.oracle_evals += 1
        want_exact = None
        if o < 0x80:
            want_exact = ('a' + chr(o) + 'b') if sp.startswith('a') else chr(o)
        ok = a.startswith('ok x') and (unhx(a[3:]) == want_exact if want_exact is not None else len(unhx(a[3:])) >= (3 if sp.startswith('a') else 1))
        if not ok:
            res.oracle_failures.append(dict(op=op, input=dict(spelling=sp), impl_output=core.dec_line(a),
                                            oracle_expectation=f'the escape in {sp!r} is valid and denotes ' + (repr(want_exact) if want_exact is not None else 'one character (or byte)')))
    call_sites(ctx, [p for p in sel if p[0] and p[0] == p[0].strip() and not any(ord(c) < 0x20 for c in p[0])])
    through_files(ctx, [p for p in pairs if '\n' not in p[1] and p[1] == p[1].strip() and not p[1].endswith('\\')])
    res.samples.append(dict(kind='oracle-case', string=pairs[len(pairs) // 2][0], spelling=pairs[len(pairs) // 2][1]))
    ctx.log(f'oracle: {res.oracle_evals} evaluations, {len(res.oracle_failures)} failures')
