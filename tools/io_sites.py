#!/usr/bin/env python3
"""T1 for the properties about what the generator reads and writes (C11, C12, C14, C18): inventory of every call that
touches the file system in non-test code.

usage: io_sites.py <repo> <out.json>
A site is (file, enclosing fn, call, normalised argument text, n-th duplicate); line numbers are not part of the identity.
The models take the file system as a parameter (`Fs` trees for reading, `World` / effect lists for writing), and the
committed classification spec/io_sites.json says for every call which side it is on (read / write / metadata) and which
part of the model or which oracle stands for it.  A new or changed call — a second place that reads a file (without the
regular-file guard of D22), a write outside `generate_service_file` / `enable_service_file`, a read of another directory —
is an unclassified obligation for these properties."""
import re, sys, json, os

sys.path.insert(0, os.path.dirname(os.path.abspath(__file__)))
from raw_sites import strip_tests, args_after

PAT = re.compile(r'((?<![\w:])(?:std::)?fs::(?:read_to_string|read_dir|read_link|read|metadata|symlink_metadata|create_dir_all|create_dir|remove_file|remove_dir_all|remove_dir|rename|copy|write|canonicalize|hard_link|set_permissions)'
                 r'|\bFile::(?:open|create|options)|\bOpenOptions::new|\bos::unix::fs::symlink|\bWalkDir::new|\benv::current_dir|\benv::set_current_dir'
                 r'|\.(?:read_dir|canonicalize|read_link|is_symlink|is_dir|is_file|exists|try_exists|metadata|symlink_metadata))\s*\(')


def inventory(repo):
    sites = []
    for dp, dns, fns in os.walk(os.path.join(repo, 'src')):
        for fn in sorted(fns):
            if not fn.endswith('.rs') or fn == 'verif_driver.rs':
                continue
            p = os.path.join(dp, fn)
            rel = os.path.relpath(p, repo)
            src = strip_tests(open(p, encoding='utf-8').read())
            src = re.sub(r'//[^\n]*', '', src)
            fns_at = [(m.start(), m.group(1)) for m in re.finditer(r'\bfn\s+(\w+)', src)]
            for m in PAT.finditer(src):
                cur = '<top>'
                for pos, name in fns_at:
                    if pos <= m.start():
                        cur = name
                if cur.startswith('verif_'):
                    continue
                if src[max(0, m.start() - 3):m.start()].endswith('fn '):
                    continue
                sites.append(dict(file=rel, fn=cur, call=m.group(1).lstrip('.'), args=args_after(src, m.end() - 1)[:160]))
    seen = {}
    for s in sites:
        k = (s['file'], s['fn'], s['call'], s['args'])
        seen[k] = seen.get(k, 0) + 1
        s['n'] = seen[k]
    return sites


def main():
    repo, out = sys.argv[1], sys.argv[2]
    sites = inventory(repo)
    os.makedirs(os.path.dirname(out) or '.', exist_ok=True)
    json.dump(sites, open(out, 'w'), indent=1)
    print(f'{len(sites)} file-system call sites in non-test code')


if __name__ == '__main__':
    main()
