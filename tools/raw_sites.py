#!/usr/bin/env python3
"""T1 for C06: inventory of every place in non-test code where text reaches a unit file WITHOUT passing through the
value quoter (add_raw / set_raw / prepend_raw / EntryValue::from_raw / EntryValue::new with a raw argument) and of
every write!/writeln! of the serialiser.

usage: raw_sites.py <repo> <out.json>
A site is (file, enclosing fn, kind, normalised argument text, n-th duplicate).  Line numbers are not part of the
identity.  The C06 proof covers values stored through add/set (quote_value) and Exec lines (quote_words); the
committed classification spec/raw_sites.json says, for every raw site, why the text stored there is quote_words
output (or a literal).  A new or changed raw site is an unclassified obligation."""
import re, sys, json, os

PAT = re.compile(r'(\.add_raw|\.set_raw|\.prepend_raw|\.add_entry_raw|\bfrom_raw|\bEntryValue::new|\bEntryValue\s*\{|\bwriteln!|\bwrite!)\s*\(?')


def strip_tests(s):
    i = s.find('#[cfg(test)]\nmod tests')
    return s if i < 0 else s[:i]


def args_after(src, i):
    """text of the parenthesised / braced argument list starting at or after i"""
    j = i
    while j < len(src) and src[j] not in '({':
        j += 1
    if j >= len(src):
        return ''
    open_, close = src[j], {'(': ')', '{': '}'}[src[j]]
    depth, k, instr = 0, j, False
    while k < len(src):
        c = src[k]
        if instr:
            if c == '\\':
                k += 1
            elif c == '"':
                instr = False
        elif c == '"':
            instr = True
        elif c == open_:
            depth += 1
        elif c == close:
            depth -= 1
            if depth == 0:
                break
        k += 1
    return re.sub(r'\s+', ' ', src[j:k + 1])


def inventory(repo):
    sites = []
    for dp, dns, fns in os.walk(os.path.join(repo, 'src')):
        for fn in sorted(fns):
            if not fn.endswith('.rs') or fn == 'verif_driver.rs':
                continue
            p = os.path.join(dp, fn)
            rel = os.path.relpath(p, repo)
            src = strip_tests(open(p, encoding='utf-8').read())
            src = re.sub(r'//[^\n]*', '', src)
            fns_at = [(m.start(), m.group(1)) for m in re.finditer(r'\bfn\s+(\w+)', src)]
            for m in PAT.finditer(src):
                cur = '<top>'
                for pos, name in fns_at:
                    if pos <= m.start():
                        cur = name
                if cur.startswith('verif_'):
                    continue
                kind = m.group(1).lstrip('.').replace(' ', '')
                if kind in ('writeln!', 'write!') and not re.match(r'\s*\(\s*writer\b', src[m.end() - 1:m.end() + 20]) \
                        and 'unit.rs' not in rel and 'value.rs' not in rel:
                    continue  # log / usage output, not a unit file (the file writers are called `writer`)
                if re.match(r'\s*fn\s', src[max(0, m.start() - 12):m.start() + 1]) or src[max(0, m.start() - 3):m.start()].endswith('fn '):
                    continue  # the definition itself
                sites.append(dict(file=rel, fn=cur, kind=kind, args=args_after(src, m.end() - 1)[:200]))
    seen = {}
    for s in sites:
        k = (s['file'], s['fn'], s['kind'], s['args'])
        seen[k] = seen.get(k, 0) + 1
        s['n'] = seen[k]
    return sites


def main():
    repo, out = sys.argv[1], sys.argv[2]
    sites = inventory(repo)
    os.makedirs(os.path.dirname(out) or '.', exist_ok=True)
    json.dump(sites, open(out, 'w'), indent=1)
    print(f'{len(sites)} raw-store / serialiser sites in non-test code')


if __name__ == '__main__':
    main()
