#!/bin/sh
# soak: every check, several seeds, on the unchanged tree; prints any VIOLATION (= false alarm or new finding)
# usage: tools/soak.sh <tier> <seed>...
cd "$(dirname "$0")/.."
# with `vp run --with-repo` use the snapshot of /repo, so that edits to /repo while the soak runs do not disturb it
[ -n "$VP_RUN_REPO" ] && export VERIF_REPO="$VP_RUN_REPO"
[ -x lean/.lake/build/bin/qmodel ] || ./setup.sh
tier="$1"; shift
for seed in "$@"; do
  for id in $(seq -f "C%02g" 1 20); do
    VERIF_SEED=$seed ./check $id $tier 2>&1 | grep -E "VIOLATION|Traceback|Error" | sed "s/^/seed=$seed $id: /"
  done
  echo "seed $seed done"
done
