#!/usr/bin/env python3
"""Regression over the seeded changes: every patch under /verif/seeded/*/ is applied to a scratch worktree of /repo's HEAD and
the quick check of its property is run against it, in parallel on private copies of /verif (the checks take every path from
their own location and the repository from VERIF_REPO).  Nothing in /repo or /verif is modified except the report.

usage: regress_seeds.py [-j N] [name-prefix …]      → /verif/seeded/REGRESSION.md (+ .json)
Scratch space is /tmp/vr (removed afterwards)."""
import json, os, re, shutil, subprocess, sys, time
from concurrent.futures import ThreadPoolExecutor
from queue import Queue

V = '/verif'
S = os.path.join(V, 'seeded')
ROOT = '/tmp/vr'


def sh(cmd, **kw):
    p = subprocess.run(cmd, shell=True, capture_output=True, **kw)
    return p.returncode, (p.stdout + p.stderr).decode('utf-8', 'replace')


def setup(i):
    w = os.path.join(ROOT, f'w{i}')
    os.makedirs(w, exist_ok=True)
    sh(f'rsync -aH --exclude .git --exclude replays --exclude evidence --exclude build/e2e {V}/ {w}/verif/')
    sh(f'git -C /repo worktree remove --force {w}/repo')
    rc, out = sh(f'git -C /repo worktree add -q --detach {w}/repo HEAD')
    assert rc == 0, out
    return w


def one(w, name):
    d = os.path.join(S, name)
    meta = json.load(open(os.path.join(d, 'meta.json')))
    prop = meta['property']
    patch = os.path.join(d, 'patch.diff')
    t0 = time.time()
    rc, out = sh(f'git -C {w}/repo apply {patch}')
    if rc != 0:
        return dict(name=name, property=prop, verdict='patch does not apply to HEAD', detail=out.strip()[:200], s=0)
    env = dict(os.environ, VERIF_REPO=f'{w}/repo', CARGO_NET_OFFLINE='true')
    p = subprocess.run([f'{w}/verif/check', prop, 'quick'], capture_output=True, env=env, timeout=3600)
    out = (p.stdout + p.stderr).decode('utf-8', 'replace')
    sh(f'git -C {w}/repo checkout -- . && git -C {w}/repo clean -fdq')
    viol = [l for l in out.split('\n') if l.startswith('VIOLATION')]
    summ = [l for l in out.split('\n') if l.startswith(f'[{prop}] obligations')]
    if viol and 'no-failing-input-found' not in viol[0]:
        verdict = 'VIOLATION with failing input'
    elif viol:
        verdict = 'VIOLATION no-failing-input-found'
    else:
        verdict = 'no alarm'
    return dict(name=name, property=prop, verdict=verdict, exit=p.returncode, detail=(summ[-1] if summ else out[-200:]), s=round(time.time() - t0))


def main():
    a = sys.argv[1:]
    j = 6
    if a[:1] == ['-j']:
        j = int(a[1])
        a = a[2:]
    names = sorted(n for n in os.listdir(S) if os.path.exists(os.path.join(S, n, 'patch.diff')) and os.path.exists(os.path.join(S, n, 'meta.json')))
    if a:
        names = [n for n in names if any(n.startswith(x) for x in a)]
    shutil.rmtree(ROOT, ignore_errors=True)
    q = Queue()
    for i in range(j):
        q.put(setup(i))
    head = sh('git -C /repo rev-parse --short HEAD')[1].strip()

    def task(name):
        w = q.get()
        try:
            r = one(w, name)
        except Exception as e:
            r = dict(name=name, property='?', verdict='error', detail=str(e)[:200], s=0)
        finally:
            q.put(w)
        print(f'{r["name"]:55s} {r["verdict"]:36s} {r["s"]}s', flush=True)
        return r
    with ThreadPoolExecutor(j) as ex:
        results = list(ex.map(task, names))
    # the unchanged tree, for reference
    for i in range(j):
        sh(f'git -C /repo worktree remove --force {ROOT}/w{i}/repo')
    shutil.rmtree(ROOT, ignore_errors=True)
    sh('git -C /repo worktree prune')
    if a:
        return
    json.dump(dict(head=head, results=results), open(os.path.join(S, 'REGRESSION.json'), 'w'), indent=1)
    with open(os.path.join(S, 'REGRESSION.md'), 'w') as f:
        n_in = sum(r['verdict'] == 'VIOLATION with failing input' for r in results)
        f.write(f'# Seeded changes against the quick checks — regression run\n\n/repo HEAD `{head}`, {time.strftime("%Y-%m-%d %H:%M")}; '
                f'{len(results)} seeded changes: {n_in} reported with a failing input, '
                f'{sum(r["verdict"] == "VIOLATION no-failing-input-found" for r in results)} as no-failing-input-found, '
                f'{sum(r["verdict"] == "no alarm" for r in results)} not reported, '
                f'{sum(r["verdict"].startswith("patch") for r in results)} no longer apply.\n\n'
                '(produced by `tools/regress_seeds.py`: every patch applied to a scratch worktree of HEAD, the quick check of its own property run on it)\n\n'
                '| seed | property | verdict of the property\'s quick check | s | summary |\n|---|---|---|---|---|\n')
        for r in results:
            f.write(f'| {r["name"]} | {r["property"]} | {r["verdict"]} | {r["s"]} | {r["detail"].replace("|", "/")[:160]} |\n')


if __name__ == '__main__':
    main()
