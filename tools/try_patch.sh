#!/bin/sh
# usage: tools/try_patch.sh <patch file> <ID> [ID...] — apply a patch to /repo, run the quick checks, undo it, re-extract
P="$1"; shift
git -C /repo apply "$P" || exit 2
for id in "$@"; do /verif/check "$id" quick 2>&1 | grep -E "VIOLATION|KNOWN-FINDING|obligations|disagree" ; done
git -C /repo checkout -- .
# the evidence files of these runs describe the patched tree: put back the committed ones (of the unchanged tree)
git -C /verif checkout -- evidence 2>/dev/null
python3 /verif/tools/extract_tables.py /repo /verif/lean/QM/Generated/Tables.lean /verif/build/tables.json >/dev/null
# rebuild the binary from the restored tree so that ad-hoc probes do not use the mutant build
RUSTFLAGS="--cfg quadlet_rs_verif" CARGO_NET_OFFLINE=true cargo build --offline --quiet --manifest-path /repo/Cargo.toml --target-dir /verif/build/target 2>/dev/null
