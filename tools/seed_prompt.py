#!/usr/bin/env python3
"""Prepare one sub-agent task for a seeded change: a scratch worktree of /repo and the prompt text.
usage: seed_prompt.py <round tag, e.g. R11> <property id>  -> prints the prompt; creates /tmp/wt/<tag>-<id> and /tmp/wt/out/<tag>-<id>/
The prompt holds the text of the property and nothing about /verif's checks; it lists the names of earlier attempts by other
authors (name + what each needed in order to manifest) only so that the new change uses a different site and mechanism."""
import json, os, subprocess, sys

tag, pid = sys.argv[1:3]
V = '/verif'
prop = next(json.loads(l) for l in open(os.path.join(V, 'properties.jsonl')) if json.loads(l)['id'] == pid)
wt = f'/tmp/wt/{tag}-{pid}'
out = f'/tmp/wt/out/{tag}-{pid}'
os.makedirs(out, exist_ok=True)
if not os.path.isdir(wt):
    subprocess.run(['git', '-C', '/repo', 'worktree', 'add', '-q', '--detach', wt, 'HEAD'], check=True)
earlier = []
for d in sorted(os.listdir(os.path.join(V, 'seeded'))):
    m = os.path.join(V, 'seeded', d, 'meta.json')
    if d.startswith(pid + '-') and os.path.exists(m):
        earlier.append('- %s: %s' % (d[len(pid) + 1:], json.load(open(m)).get('needs_to_manifest', '')))
prompt = f"""You are helping to test a verification suite for the Rust project riyad/quadlet-rs (a port of Podman's Quadlet systemd generator).
You work ONLY in your own scratch git worktree of the repository: {wt}  (never touch /repo or /verif, do not read /verif).
Write your results to {out}/ .

The property under test ({pid}: {prop['title']}):

  {prop['statement']}

Where it lives in the code: {json.dumps(prop['anchors'].get('mechanism'), ensure_ascii=False)}

Task: write ONE change to the source code (src/**) that BREAKS this property while
  (a) the crate still compiles (`cargo build --offline`),
  (b) the existing test suite still gives exactly the same result as on the unchanged tree: `cargo test --workspace --no-fail-fast --offline`
      prints `212 passed; 1 failed` (the one failure, iterators::...::from_env::rootless, is a known baseline failure) — do not edit tests,
  (c) the change looks like something a maintainer could plausibly commit (a refactoring, an "optimisation", a small "fix"), and
  (d) it needs something SPECIFIC to manifest: an unusual input, a particular combination or order of files/keys/values, a multi-step
      sequence, a boundary of a count or a length, a fault at a particular point, or two sites that each look fine alone. A change that
      ordinary use (the typical example units) would expose at once is not wanted.

Earlier attempts by other authors against this same property (use a DIFFERENT code site, a different mechanism and a different kind of
input; read the statement clause by clause and pick a clause, unit type, key, or quantified dimension none of these used):
{chr(10).join(earlier) if earlier else '(none)'}

Deliverables in {out}/ :
  patch.diff   `git diff` of your change against HEAD of the worktree (source files only; must apply with `git apply` to a clean checkout)
  demo.sh      a bash script taking the path of a checkout as $1; it builds that checkout itself (cargo build --offline, target dir
               inside the checkout) and exercises the built binary (or a small program/test it adds temporarily) to demonstrate the
               violation: exit 0 and print PASS on the unchanged tree, exit non-zero and print what went wrong with your change applied.
               It must be deterministic (repeat randomised cases enough times), leave nothing behind outside the checkout and /tmp, and
               must not need network. Environment hint: QUADLET_UNIT_DIRS=<dir[:dir…]> sets the search directories,
               `target/debug/quadlet-rs --dry-run --no-kmsg-log <outdir>` prints the generated units, without --dry-run it writes them.
  notes.md     what you changed and why it breaks the property, what exactly is needed for it to manifest, and one line
               `NEEDS: <short description of the input/conditions needed>`.
Verify yourself before finishing: demo.sh passes on a clean checkout (git stash or a second worktree), fails with the patch, and the
test suite result is unchanged with the patch. Finish by removing your build output (`cargo clean` in the worktree) — leave the source
change in place. Report in your final message: the one-line NEEDS, and whether all of (a)-(d) were verified.
"""
open(os.path.join(out, 'prompt.txt'), 'w').write(prompt)
print(prompt)
