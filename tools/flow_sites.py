#!/usr/bin/env python3
"""T1 for the run-level properties (C10, C18, C19): inventory of the control-flow statements of main.rs.

usage: flow_sites.py <repo> <out.json>
A site is (enclosing fn, kind, normalised statement, n-th duplicate) for every `continue`, `break`, `return`,
`process::exit`, `?` early exit, `if cfg.dry_run`, `prev_errors.push` / `errors.push` in non-test code of src/main.rs.
The per-file error policy (continue, not break / return), the dry-run guards and the exit status are runtime
behaviour that the Lean models take from this file by hand; a change to any of these statements is an unclassified
obligation for the properties that rest on them."""
import re, sys, json, os

PAT = re.compile(r'\b(continue|break|return\b[^;{}]*|process::exit\([^)]*\)|std::process::exit\([^)]*\))\s*;|(if\s+!?\s*cfg\.dry_run[^{]*)\{|([^;{}]*\?)\s*;')


def strip_tests(s):
    i = s.find('#[cfg(test)]\nmod tests')
    return s if i < 0 else s[:i]


def inventory(repo):
    src = strip_tests(open(os.path.join(repo, 'src', 'main.rs'), encoding='utf-8').read())
    src = re.sub(r'//[^\n]*', '', src)
    # the hook is dormant code
    src = re.sub(r'#\[cfg\(quadlet_rs_verif\)\][^\n]*\n[^\n]*\n', '\n', src)
    fns_at = [(m.start(), m.group(1)) for m in re.finditer(r'\bfn\s+(\w+)', src)]
    sites = []
    found = [(m.start(), next(g for g in m.groups() if g)) for m in PAT.finditer(src)]
    # error-list pushes: the call with its balanced argument list (it may end a statement or a match arm)
    for m in re.finditer(r'\b(?:\w*errors|results)\.push\(', src):
        depth, j = 0, m.end() - 1
        while j < len(src):
            depth += src[j] == '('
            depth -= src[j] == ')'
            j += 1
            if depth == 0:
                break
        found.append((m.start(), src[m.start():j]))
    # a push inside a longer `?`/return statement is already part of that site's text; keep both (they are distinct facts)
    for start, text in sorted(found):
        cur = '<top>'
        for pos, name in fns_at:
            if pos <= start:
                cur = name
        kind = 'try' if text.rstrip().endswith('?') else re.match(r'\s*(\w+(?:::\w+)*|if)', text).group(1)
        sites.append(dict(fn=cur, kind=kind, stmt=re.sub(r'\s+', ' ', text.strip())[:160]))
    # the text of every function of main.rs (comments and white space apart): the run-level models (Wr, Run, Inst, Fs) were
    # written against exactly this text; any edit — a moved call, a new helper — is an obligation to look again
    import hashlib
    for pos, name in fns_at:
        i = src.find('{', pos)
        if i < 0:
            continue
        depth, j = 0, i
        while j < len(src):
            depth += src[j] == '{'
            depth -= src[j] == '}'
            j += 1
            if depth == 0:
                break
        body = re.sub(r'\s+', ' ', src[pos:j]).strip()
        sites.append(dict(fn=name, kind='body', stmt=hashlib.sha1(body.encode()).hexdigest()[:16]))
    seen = {}
    for s in sites:
        k = (s['fn'], s['kind'], s['stmt'])
        seen[k] = seen.get(k, 0) + 1
        s['n'] = seen[k]
    return sites


def main():
    repo, out = sys.argv[1], sys.argv[2]
    sites = inventory(repo)
    os.makedirs(os.path.dirname(out) or '.', exist_ok=True)
    json.dump(sites, open(out, 'w'), indent=1)
    print(f'{len(sites)} control-flow sites in main.rs')


if __name__ == '__main__':
    main()
