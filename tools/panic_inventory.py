#!/usr/bin/env python3
"""T1 for C11: inventory of every panicking construct in non-test code of /repo/src.

usage: panic_inventory.py <repo> <out.json>
A site is (file, enclosing fn, kind, normalised snippet).  Line numbers are not part of the identity, so moving
code does not change the inventory; adding, removing or changing a site does."""
import re, sys, json, os

KINDS = [('unwrap', r'\.unwrap\(\)'), ('expect', r'\.expect\('), ('panic', r'\b(?:panic|unreachable|todo|unimplemented)!\('),
         ('assert', r'\bassert(?:_eq|_ne)?!\('), ('print', r'\b(?:println|print|eprintln|eprint|dbg)!\('), ('from_raw', r'\bfrom_raw\('), ('unquote', r'\.unquote\(\)'),
         ('to_str_helper', r'\.to_str\(\)(?!\s*\.)'), ('boundary', r'\.(?:truncate|split_at|split_off|drain|replace_range|swap_remove|copy_from_slice|step_by|chunks|windows)\('), ('index', r'\w\[[^\]\n]*\](?!\s*=[^=])')]


def strip_tests(s):
    i = s.find('#[cfg(test)]\nmod tests')
    return s if i < 0 else s[:i]


def inventory(repo):
    sites = []
    for dp, dns, fns in os.walk(os.path.join(repo, 'src')):
        for fn in sorted(fns):
            if not fn.endswith('.rs') or fn == 'verif_driver.rs':
                continue
            p = os.path.join(dp, fn)
            rel = os.path.relpath(p, repo)
            src = strip_tests(open(p, encoding='utf-8').read())
            cur = '<top>'
            skip_cfg = False
            for line in src.split('\n'):
                if '#[cfg(quadlet_rs_verif)]' in line:
                    skip_cfg = True
                    continue
                m = re.match(r'\s*(?:pub(?:\([a-z]+\))?\s+)?fn\s+(\w+)', line)
                if m:
                    cur = m.group(1)
                    if skip_cfg:
                        cur = '<verif hook>'
                # (the attribute guards the item that follows it directly — a statement inside a function, or a function; it must not reach the
                #  next function further down: `process` was left out of the inventory that way until D25 showed it)
                if line.strip() and not line.strip().startswith('#['):
                    skip_cfg = False
                code = re.sub(r'//.*$', '', line)
                code_ns = re.sub(r'"(?:[^"\\]|\\.)*"', '""', code)
                if cur == '<verif hook>' or cur.startswith('verif_'):
                    continue
                for kind, pat in KINDS:
                    if kind == 'index':
                        # slice/array indexing only (not attribute syntax, generics or array types/literals)
                        if re.search(r'#\[|\[\s*&?str\s*;|: \[|= \[|&\[|\(\[|vec!\[|\[\]', code_ns):
                            continue
                    for _ in re.finditer(pat, code_ns):
                        sites.append(dict(file=rel, fn=cur, kind=kind, snippet=re.sub(r'\s+', ' ', code.strip())[:160]))
    # stable identity: count duplicates
    seen = {}
    for s in sites:
        k = (s['file'], s['fn'], s['kind'], s['snippet'])
        seen[k] = seen.get(k, 0) + 1
        s['n'] = seen[k]
    return sites


def main():
    repo, out = sys.argv[1], sys.argv[2]
    sites = inventory(repo)
    os.makedirs(os.path.dirname(out), exist_ok=True)
    json.dump(sites, open(out, 'w'), indent=1)
    print(f'{len(sites)} panic sites in non-test code')


if __name__ == '__main__':
    main()
