#!/usr/bin/env python3
"""Confirm a seeded change independently and record it under /verif/seeded/<name>/.
usage: confirm_seed.py <name> <property> <out dir of the sub-agent> "<what it needs to manifest>" <check IDs to run…>
Steps: fresh scratch worktree of /repo; demo on the clean tree (must pass); apply patch; suite (must be 212 passed; 1 failed);
demo (must fail); then apply the patch to /repo, run the given checks, undo; write meta.json."""
import json, os, re, shutil, subprocess, sys

name, prop, src, needs = sys.argv[1:5]
checks = sys.argv[5:]
V = '/verif'
dst = os.path.join(V, 'seeded', name)
os.makedirs(dst, exist_ok=True)
for f in os.listdir(src):
    if f in ('patch.diff', 'demo.sh', 'demo_test.diff', 'notes.md'):
        shutil.copy(os.path.join(src, f), dst)
import hashlib
wt = '/tmp/wt/confirm-' + hashlib.md5(name.encode()).hexdigest()[:8]   # (not the name: a path containing "user" selects the user mode of the binary built there)
subprocess.run(['git', '-C', '/repo', 'worktree', 'remove', '--force', wt], capture_output=True)
subprocess.run(['git', '-C', '/repo', 'worktree', 'add', '-q', '--detach', wt, 'HEAD'], check=True)
meta = dict(name=name, property=prop, needs_to_manifest=needs, ran=[])


def sh(cmd, cwd=None, timeout=1800):
    p = subprocess.run(cmd, shell=True, cwd=cwd, capture_output=True, timeout=timeout, env=dict(os.environ, CARGO_NET_OFFLINE='true'))
    return p.returncode, (p.stdout + p.stderr).decode('utf-8', 'replace')


def demo():
    if os.path.exists(os.path.join(dst, 'demo.sh')):
        return sh(f'bash {dst}/demo.sh {wt}', cwd=wt)
    rc, out = sh(f'git apply {dst}/demo_test.diff', cwd=wt)
    if rc != 0:
        return 99, 'demo_test.diff does not apply: ' + out
    rc, out = sh('cargo test --workspace --no-fail-fast --offline 2>&1 | grep -E "^test result|FAILED|failed" | head -20', cwd=wt)
    sh(f'git apply -R {dst}/demo_test.diff', cwd=wt)
    m = re.search(r'(\d+) passed; (\d+) failed', out)
    return (0 if m and m.group(2) == '1' else 1), out


rc, out = demo()
meta['ran'].append(dict(step='demo on the unmodified tree', exit=rc, tail=out[-300:]))
ok_clean = rc == 0
rc, out = sh(f'git apply {dst}/patch.diff', cwd=wt)
meta['ran'].append(dict(step='git apply patch.diff', exit=rc))
rc, out = sh('cargo test --workspace --no-fail-fast --offline 2>&1 | grep "^test result"', cwd=wt)
meta['ran'].append(dict(step='cargo test --workspace --no-fail-fast --offline (with the change)', result=out.strip()))
suite_ok = '212 passed; 1 failed' in out
rc, out = demo()
meta['ran'].append(dict(step='demo with the change', exit=rc, tail=out[-400:]))
fails_with = rc != 0
meta['confirmed'] = bool(ok_clean and suite_ok and fails_with)
subprocess.run(['git', '-C', '/repo', 'worktree', 'remove', '--force', wt], capture_output=True)
# our checks
meta['checks'] = {}
if meta['confirmed'] and checks:
    rc, out = sh(f'{V}/tools/try_patch.sh {dst}/patch.diff ' + ' '.join(checks), cwd=V, timeout=3600)
    for cid in checks:
        lines = [l for l in out.split('\n') if f'property={cid} ' in l and 'VIOLATION' in l]
        summary = [l for l in out.split('\n') if l.startswith(f'[{cid}] obligations')]
        meta['checks'][cid] = dict(verdict=('VIOLATION with failing input' if lines and 'no-failing-input-found' not in lines[0] else
                                            ('VIOLATION no-failing-input-found' if lines else 'no alarm')), summary=summary[-1] if summary else '')
json.dump(meta, open(os.path.join(dst, 'meta.json'), 'w'), indent=1)
print(json.dumps(dict(confirmed=meta['confirmed'], checks=meta['checks']), indent=1))
