#!/usr/bin/env python3
"""T1 extractor: regenerate the table-like parts of the model from the Rust source.

usage: extract_tables.py <repo> <out.lean> <out.json>

Reads /repo/src/**.rs (non-test code), pulls out every table the model and the theorems depend on,
and writes them as Lean definitions (namespace Gen) plus a JSON copy for the harness.
Fails closed: a table that is expected and not found, or a count that does not match the
declared array length, raises ExtractError (exit status 3) — the caller treats that as a broken
obligation.  The Lean file is only rewritten when its content changes (keeps lake builds warm).
"""
import re, sys, json, os, hashlib


class ExtractError(Exception):
    pass


def need(cond, msg):
    if not cond:
        raise ExtractError(msg)


def strip_tests(s):
    i = s.find('#[cfg(test)]\nmod tests')
    return s if i < 0 else s[:i]


def strip_comments(s):
    # line comments only (the source has no block comments in tables); keep string contents
    out = []
    for line in s.split('\n'):
        res = ''
        i = 0
        instr = False
        inchr = False
        while i < len(line):
            c = line[i]
            if instr:
                res += c
                if c == '\\' and i + 1 < len(line):
                    res += line[i + 1]
                    i += 1
                elif c == '"':
                    instr = False
            elif c == '"':
                instr = True
                res += c
            elif c == '/' and line[i:i + 2] == '//':
                break
            else:
                res += c
            i += 1
        out.append(res)
    return '\n'.join(out)


def rust_unescape(lit):
    """decode the inside of a Rust string or char literal"""
    out = []
    i = 0
    while i < len(lit):
        c = lit[i]
        if c != '\\':
            out.append(c)
            i += 1
            continue
        n = lit[i + 1]
        if n == 'x':
            out.append(chr(int(lit[i + 2:i + 4], 16)))
            i += 4
        elif n == 'u':
            j = lit.index('}', i)
            out.append(chr(int(lit[i + 3:j], 16)))
            i = j + 1
        else:
            m = {'n': '\n', 'r': '\r', 't': '\t', '\\': '\\', '0': '\0', "'": "'", '"': '"'}
            need(n in m, f'unknown Rust escape \\{n}')
            out.append(m[n])
            i += 2
    return ''.join(out)


def strs(body):
    return [rust_unescape(x) for x in re.findall(r'"((?:[^"\\]|\\.)*)"', body)]


def lean_char(c):
    o = ord(c)
    if 0x20 <= o < 0x7f and c not in "'\\":
        return f"'{c}'"
    return f'(Char.ofNat {o})'


def lean_str(s):
    return '[' + ', '.join(lean_char(c) for c in s) + ']'


def lean_name(s):
    return re.sub(r'[^A-Za-z0-9_]', '_', s)


def extract(R):
    def rd(p):
        path = f'{R}/src/{p}'
        need(os.path.exists(path), f'missing source file {p}')
        return open(path, encoding='utf-8').read()

    out = {}
    c = strip_comments(rd('quadlet/constants.rs'))
    out['consts'] = dict((k, rust_unescape(v)) for k, v in
                         re.findall(r'pub(?:\(crate\))? const (\w+): &str\s*=\s*"((?:[^"\\]|\\.)*)";', c))
    su = strip_comments(rd('systemd_unit/constants.rs'))
    out['consts'].update(dict((k, rust_unescape(v)) for k, v in
                              re.findall(r'pub(?:\(crate\))? const (\w+): &str\s*=\s*"((?:[^"\\]|\\.)*)";', su)))
    for k in ['DEFAULT_PODMAN_BINARY', 'UNIT_DIR_ADMIN', 'UNIT_DIR_DISTRO', 'UNIT_DIR_TEMP', 'QUADLET_SECTION',
              'CONTAINER_SECTION', 'POD_SECTION', 'VOLUME_SECTION', 'NETWORK_SECTION', 'KUBE_SECTION',
              'IMAGE_SECTION', 'BUILD_SECTION', 'X_CONTAINER_SECTION', 'X_QUADLET_SECTION', 'INSTALL_SECTION',
              'SERVICE_SECTION', 'UNIT_SECTION']:
        need(k in out['consts'], f'constant {k} not found')
    out['supported'] = {}
    for name, n, body in re.findall(r'pub static (SUPPORTED_\w+): \[&str; (\d+)\] =\s*\[(.*?)\];', c, re.S):
        keys = strs(body)
        need(len(keys) == int(n), f'{name}: {len(keys)} entries found, {n} declared')
        out['supported'][name] = keys
    for k in ['SUPPORTED_EXTENSIONS', 'SUPPORTED_BUILD_KEYS', 'SUPPORTED_CONTAINER_KEYS', 'SUPPORTED_IMAGE_KEYS',
              'SUPPORTED_KUBE_KEYS', 'SUPPORTED_NETWORK_KEYS', 'SUPPORTED_POD_KEYS', 'SUPPORTED_QUADLET_KEYS',
              'SUPPORTED_VOLUME_KEYS']:
        need(k in out['supported'] and out['supported'][k], f'table {k} not found or empty')

    cv = strip_comments(strip_tests(rd('quadlet/convert.rs')))
    fns = {}
    for m in re.finditer(r'^(?:pub\(crate\) )?fn (\w+)', cv, re.M):
        fns[m.group(1)] = m.start()
    order = sorted(fns.items(), key=lambda kv: kv[1])
    bodies = {}
    for i, (n, st) in enumerate(order):
        en = order[i + 1][1] if i + 1 < len(order) else len(cv)
        bodies[n] = cv[st:en]
    tables = {}
    for fn, body in bodies.items():
        if fn.startswith('verif_'):
            continue
        t = {}
        for var, tb in re.findall(r'let (\w+_keys|key_arg_map)(?:: [^=]+)? = \[(.*?)\];', body, re.S):
            rows = [(rust_unescape(a), rust_unescape(b)) for a, b in
                    re.findall(r'[\(\[]"((?:[^"\\]|\\.)+)",\s*"((?:[^"\\]|\\.)+)"[\)\]]', tb)]
            need(rows, f'{fn}.{var}: empty table')
            t[var] = rows
        for call, sec, tb in re.findall(r'(lookup_and_add_\w+)\(\s*&?\w+,\s*(\w+),\s*&\[(.*?)\]', body, re.S):
            rows = [(rust_unescape(a), rust_unescape(b)) for a, b in re.findall(r'\("([^"]+)",\s*"([^"]+)"\)', tb)]
            t.setdefault('inline_' + call, []).extend(rows)
        kinds = re.findall(
            r'\.(lookup_all_args|lookup_all_strv|lookup_all_key_val|lookup_all|lookup_last_value|lookup_last|lookup_bool|lookup|has_key)\(\s*&?(\w+),\s*"(\w+)"',
            body)
        calls = re.findall(r'(lookup_and_add_string|lookup_and_add_all_strings|lookup_and_add_bool)\(\s*&?\w+,\s*\w+,\s*&(\w+)', body)
        checks = re.findall(r'check_for_unknown_keys\(\s*&?\w+,\s*(\w+),\s*&?(\w+)', body)
        if t or kinds or checks:
            tables[fn] = {'tables': t, 'lookups': kinds, 'table_calls': calls, 'unknown_key_checks': checks}
    for fn in ['from_build_unit', 'from_container_unit', 'from_image_unit', 'from_kube_unit', 'from_network_unit',
               'from_pod_unit', 'from_volume_unit']:
        need(fn in tables, f'converter {fn} not found')
        need(len(tables[fn]['unknown_key_checks']) >= 0, '')
    out['convert'] = tables
    # every (section, key) pair the converters write into the service with a literal key (add / set / prepend / add_raw)
    conv_src = strip_comments(strip_tests(rd('quadlet/convert.rs')))
    SEC = {'UNIT_SECTION': 'Unit', 'SERVICE_SECTION': 'Service', 'INSTALL_SECTION': 'Install'}
    pairs = []
    for sec, key in re.findall(r'\.(?:add|set|prepend|add_raw|set_raw)\(\s*(\w+_SECTION),\s*"(\w+)"', conv_src):
        p = (SEC.get(sec, sec), key)
        if p not in pairs:
            pairs.append(p)
    need(len(pairs) >= 10, 'written (section, key) pairs not found')
    need(not re.search(r'\.(?:add|set|prepend|add_raw|set_raw)\(\s*\w+_SECTION,\s*(?![\s"])', conv_src),
         'a converter writes an entry whose key is not a string literal: the key-level frame (C07) cannot list it')
    out['written_pairs'] = sorted(pairs)

    m = strip_comments(strip_tests(rd('main.rs')))
    out['sorting_priority'] = dict((k.lower(), int(v)) for k, v in re.findall(r'\(QuadletType::(\w+),\s*(\d+)\)', m))
    need(len(out['sorting_priority']) == 7, 'sorting_priority: expected 7 rows')
    q = strip_comments(strip_tests(rd('systemd_unit/quoted.rs')))
    out['quote_arms'] = [(rust_unescape(a), rust_unescape(b)) for a, b in
                         re.findall(r"'((?:\\.|[^'\\])+)'\s*=>\s*escaped\.push_str\(\"((?:[^\"\\]|\\.)*)\"\)", q)]
    need(len(out['quote_arms']) >= 1, 'quote_value arms not found')
    mfmt = re.search(r'_ => escaped\.push_str\(\s*&format!\("((?:[^"\\]|\\.)*)",\s*c as \w+\s*\)', q)
    need(mfmt is not None, 'quote_value default arm not found')
    out['quote_default_fmt'] = rust_unescape(mfmt.group(1))
    mneeds = re.search(r'fn char_needs_escaping\(c: char\) -> bool \{(.*?)\n\}', q, re.S)
    need(mneeds is not None, 'char_needs_escaping not found')
    out['char_needs_escaping_src'] = re.sub(r'\s+', ' ', mneeds.group(1)).strip()
    mthr = re.search(r'c as usize > (\d+)', mneeds.group(1))
    need(mthr is not None, 'char_needs_escaping threshold not found')
    out['needs_escaping_threshold'] = int(mthr.group(1))
    out['needs_escaping_chars'] = [rust_unescape(x) for x in re.findall(r"c == '((?:\\.|[^'\\])+)'", mneeds.group(1))]
    out['needs_escaping_classes'] = re.findall(r'c\.(is_ascii_\w+)\(\)', mneeds.group(1))
    arm = r"'((?:\\.|[^'\\])+)'\s*=>\s*'((?:\\.|[^'\\])+)'"
    out['unescape_arms_quoted'] = [(rust_unescape(a), rust_unescape(b)) for a, b in re.findall(arm, q)]
    sp = strip_comments(strip_tests(rd('systemd_unit/split.rs')))
    out['unescape_arms_split'] = [(rust_unescape(a), rust_unescape(b)) for a, b in re.findall(arm, sp)]
    need(len(out['unescape_arms_quoted']) >= 1 and len(out['unescape_arms_split']) >= 1, 'unescape arms not found')
    ws = re.findall(r"const WHITESPACE: \[char; (\d+)\] = \[(.*?)\];", sp)
    need(len(ws) == 1, 'WHITESPACE not found')
    out['whitespace'] = [rust_unescape(x) for x in re.findall(r"'((?:\\.|[^'\\])+)'", ws[0][1])]
    need(len(out['whitespace']) == int(ws[0][0]), 'WHITESPACE count mismatch')
    md = strip_comments(strip_tests(rd('quadlet/mod.rs')))
    out['service_suffix'] = [(a, rust_unescape(b)) for a, b in
                             re.findall(r'get_quadlet_service_name\(\w+, (\w+), "([^"]*)"\)', md)]
    need(len(out['service_suffix']) == 7, 'service-name suffixes: expected 7')
    ps = strip_comments(strip_tests(rd('systemd_unit/parser.rs')))
    mrep = re.search(r'const LINE_CONTINUATION_REPLACEMENT: &str = "((?:[^"\\]|\\.)*)";', ps)
    need(mrep is not None, 'LINE_CONTINUATION_REPLACEMENT not found')
    out['line_continuation_replacement'] = rust_unescape(mrep.group(1))
    mb = strip_comments(strip_tests(rd('systemd_unit/mod.rs')))
    tb = re.findall(r'if \[(.*?)\]\.contains\(&s\)', mb, re.S)
    need(len(tb) == 2, 'parse_bool tables not found')
    out['bool_true'] = strs(tb[0])
    out['bool_false'] = strs(tb[1])
    return out


def render_lean(t):
    L = []
    a = L.append
    a('/-! GENERATED by tools/extract_tables.py from the Rust source on every run — do not edit. -/')
    a('namespace Gen')
    a('abbrev Str := List Char')

    def pairs_ss(name, rows):
        a(f'def {name} : List (Str × Str) := [')
        a(',\n'.join(f'  ({lean_str(x)}, {lean_str(y)})' for x, y in rows))
        a(']')

    def list_s(name, rows):
        a(f'def {name} : List Str := [')
        a(',\n'.join(f'  {lean_str(x)}' for x in rows))
        a(']')
    a('def quoteArms : List (Char × Str) := [')
    a(',\n'.join(f'  ({lean_char(x)}, {lean_str(y)})' for x, y in t['quote_arms']))
    a(']')
    a(f'def quoteDefaultFmt : Str := {lean_str(t["quote_default_fmt"])}')
    a(f'def needsEscapingThreshold : Nat := {t["needs_escaping_threshold"]}')
    a(f'def needsEscapingChars : List Char := [{", ".join(lean_char(x) for x in t["needs_escaping_chars"])}]')
    list_s('needsEscapingClasses', t['needs_escaping_classes'])
    for nm, key in [('unescQuoted', 'unescape_arms_quoted'), ('unescSplit', 'unescape_arms_split')]:
        a(f'def {nm} : List (Char × Char) := [')
        a(',\n'.join(f'  ({lean_char(x)}, {lean_char(y)})' for x, y in t[key]))
        a(']')
    a(f'def whitespace : List Char := [{", ".join(lean_char(x) for x in t["whitespace"])}]')
    a(f'def lineContinuationReplacement : Str := {lean_str(t["line_continuation_replacement"])}')
    list_s('boolTrue', t['bool_true'])
    list_s('boolFalse', t['bool_false'])
    for k, v in sorted(t['consts'].items()):
        a(f'def const_{lean_name(k)} : Str := {lean_str(v)}')
    for k, v in sorted(t['supported'].items()):
        list_s(lean_name(k), v)
    a('def sortingPriority : List (Str × Nat) := [')
    a(',\n'.join(f'  ({lean_str(k)}, {v})' for k, v in sorted(t['sorting_priority'].items())))
    a(']')
    pairs_ss('serviceSuffix', t['service_suffix'])
    kinds = []
    for fn, d in sorted(t['convert'].items()):
        for var, rows in sorted(d['tables'].items()):
            pairs_ss(f'tbl_{lean_name(fn)}_{lean_name(var)}', rows)
        for kind, sec, key in d['lookups']:
            kinds.append((fn, kind, sec, key))
    a('def lookupKinds : List (Str × Str × Str × Str) := [')
    a(',\n'.join(f'  ({lean_str(f)}, {lean_str(k)}, {lean_str(s)}, {lean_str(key)})' for f, k, s, key in kinds))
    a(']')
    pairs_ss('writtenPairs', t['written_pairs'])
    a('def unknownKeyChecks : List (Str × Str × Str) := [')
    chk = [(fn, s, tb) for fn, d in sorted(t['convert'].items()) for s, tb in d['unknown_key_checks']]
    a(',\n'.join(f'  ({lean_str(f)}, {lean_str(s)}, {lean_str(tb)})' for f, s, tb in chk))
    a(']')
    a('end Gen')
    return '\n'.join(L) + '\n'


def main():
    R, out_lean, out_json = sys.argv[1], sys.argv[2], sys.argv[3]
    try:
        t = extract(R)
    except ExtractError as e:
        print(f'EXTRACT-ERROR: {e}')
        sys.exit(3)
    except Exception as e:  # malformed source: fail closed
        print(f'EXTRACT-ERROR: {type(e).__name__}: {e}')
        sys.exit(3)
    lean = render_lean(t)
    t['_sha256'] = hashlib.sha256(lean.encode()).hexdigest()
    os.makedirs(os.path.dirname(out_lean), exist_ok=True)
    old = open(out_lean).read() if os.path.exists(out_lean) else None
    if old != lean:
        with open(out_lean + '.tmp', 'w') as f:
            f.write(lean)
        os.replace(out_lean + '.tmp', out_lean)
    os.makedirs(os.path.dirname(out_json), exist_ok=True)
    with open(out_json + '.tmp', 'w') as f:
        json.dump(t, f, indent=1)
    os.replace(out_json + '.tmp', out_json)
    print(f'extracted: {len(t["supported"])} key tables, {len(t["convert"])} converter functions, sha256 {t["_sha256"][:16]}')


if __name__ == '__main__':
    main()
