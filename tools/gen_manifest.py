#!/usr/bin/env python3
"""Regenerate /verif/MANIFEST.json from the property modules under harness/props (one source of truth)."""
import importlib, json, os, subprocess, sys

V = os.path.dirname(os.path.dirname(os.path.abspath(__file__)))
sys.path.insert(0, os.path.join(V, 'harness'))
ALL = [f'C{i:02d}' for i in range(1, 21)]
NOT_APPLICABLE = {}


def hook_commits():
    try:
        out = subprocess.run(['git', '-C', '/repo', 'log', '--format=%H %s'], capture_output=True, text=True).stdout
        return [l.split(' ')[0] for l in out.splitlines() if 'verif hook' in l]
    except Exception:
        return []


def main():
    checks, na = [], []
    for pid in ALL:
        p = os.path.join(V, 'harness', 'props', pid.lower() + '.py')
        if not os.path.exists(p):
            na.append(dict(property_id=pid, reason=NOT_APPLICABLE.get(pid, 'not claimed yet: the check for this property is still being built (model drafted, see DESIGN.md section 6)')))
            continue
        m = importlib.import_module('props.' + pid.lower())
        checks.append(dict(
            property_id=pid,
            quick_cmd=f'./check {pid} quick',
            thorough_cmd=f'./check {pid} thorough',
            evidence_file=f'/verif/evidence/{pid}.json',
            replay_cmd_template=f'./check {pid} quick --replay {{path}}',
            engine='lean4-model',
            level_claimed=dict(category='proof', text=getattr(m, 'LEVEL_TEXT', ''), design_ref=getattr(m, 'DESIGN_REF', 'DESIGN.md section 6, ' + pid)),
            level_note=getattr(m, 'LEVEL_NOTE', '; '.join(getattr(m, 'ASSUMPTIONS', []))),
            technique=getattr(m, 'TECHNIQUE', 'Lean 4 theorems about an executable model + model/implementation correspondence'),
        ))
    man = dict(
        version=1,
        setup_cmd='./setup.sh',
        hooks=dict(
            guard='quadlet_rs_verif',
            enable='RUSTFLAGS="--cfg quadlet_rs_verif" CARGO_NET_OFFLINE=true cargo build --offline --manifest-path /repo/Cargo.toml --target-dir /verif/build/target',
            baseline_off_cmd='cd /repo && cargo test --workspace --no-fail-fast --offline',
            source_commits=hook_commits(),
            add_only=True,
        ),
        engines=[dict(name='lean4-model', path='/verif/lean', serves_properties=[c['property_id'] for c in checks],
                      kind_free_text='Lean 4 executable model of quadlet-rs (QM/*.lean) with property theorems (QM/Props/*.lean), tables regenerated '
                                     'from the Rust source on every run (tools/extract_tables.py), and a correspondence check that runs the model '
                                     'driver (lean_exe qmodel) and the hooked binary (quadlet-rs --verif-driver) on the same operations (harness/)')],
        checks=checks,
        not_applicable=na,
        notes='Every check: T1 table extraction -> hooked cargo build -> lake build of the property theorems + axiom audit -> model/implementation '
              'correspondence -> oracle search on the implementation. See DESIGN.md. Known findings: known_findings.txt.',
    )
    with open(os.path.join(V, 'MANIFEST.json'), 'w') as f:
        json.dump(man, f, indent=1)
    print(f'{len(checks)} checks, {len(na)} not claimed')


if __name__ == '__main__':
    main()
